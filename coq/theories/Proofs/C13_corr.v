(* Proofs/C13_corr.v — the link between the two verdicts of Corr/C13.v:
   on every case inside the property's domain whose window the current column slice handles,
   "the implementation agrees with the model" implies "the implementation satisfies the property". *)
From Coq Require Import ZArith List Bool Lia Arith.
From BNP Require Import Base.Prims.
From BNP Require Import Base.PrimsFacts.
From BNP Require Import Model.C13.
From BNP Require Import Proofs.C13.
From BNP Require Import Corr.C13.
Import ListNotations.
Open Scope Z_scope.

(* ---- boolean list equality decides equality *)
Lemma zlist_eqb_eq a b : zlist_eqb a b = true <-> a = b.
Proof.
  revert b. induction a as [|x a IH]; intros [|y b]; cbn; split; try congruence; try discriminate.
  - intros H. apply andb_true_iff in H. destruct H as [H1 H2]. apply Z.eqb_eq in H1. apply IH in H2. congruence.
  - intros H. injection H as -> ->. rewrite Z.eqb_refl. apply IH. reflexivity.
Qed.
Lemma zll_eqb_eq a b : zll_eqb a b = true <-> a = b.
Proof.
  revert b. induction a as [|x a IH]; intros [|y b]; cbn; split; try congruence; try discriminate.
  - intros H. apply andb_true_iff in H. destruct H as [H1 H2]. apply zlist_eqb_eq in H1. apply IH in H2. congruence.
  - intros H. injection H as -> ->. apply andb_true_iff. split; [apply zlist_eqb_eq|apply IH]; reflexivity.
Qed.
Lemma zll_eqb_refl a : zll_eqb a a = true.
Proof. apply zll_eqb_eq. reflexivity. Qed.

(* ---- letters *)
Lemma forallb_letters n l : forallb (fun x => (0 <=? x) && (x <? n)) l = true -> letters_ok n l.
Proof.
  intros H. apply Forall_forall. intros x Hx. rewrite forallb_forall in H. specialize (H x Hx).
  apply andb_true_iff in H. destruct H as [H1 H2]. apply Z.leb_le in H1. apply Z.ltb_lt in H2. lia.
Qed.
Lemma letters_concat n rows : forallb (forallb (fun x => (0 <=? x) && (x <? n))) rows = true ->
  letters_ok n (concat rows) /\ Forall (letters_ok n) rows.
Proof.
  induction rows as [|r rs IH]; intros H; [split; constructor|].
  cbn [forallb] in H. apply andb_true_iff in H. destruct H as [H1 H2]. destruct (IH H2) as [I1 I2].
  apply forallb_letters in H1. split; [cbn [concat]; apply Forall_app; split; assumption|constructor; assumption].
Qed.
Lemma windows_In_letters n (w : nat) l x : letters_ok n l -> In x (windows w l) -> letters_ok n x.
Proof.
  intros H. induction H as [|a r Ha Hr IH]; [intros []|].
  destruct (Nat.le_gt_cases w (S (length r))) as [Hle|Hgt].
  - rewrite windows_cons_ge by exact Hle. intros [<-|Hin]; [|exact (IH Hin)].
    apply letters_ok_firstn. constructor; assumption.
  - rewrite windows_short by (cbn [length]; lia). intros [].
Qed.

(* ---- the current column slice (the repaired one, /repo since c9f70fe) keeps the right number of columns for
        every window >= 1 *)
Lemma keeps_stop_of w : 1 <= w -> keeps_windows (stop_of w) (Z.to_nat w).
Proof. intros H. unfold stop_of. apply keeps_fixed. exact H. Qed.

(* ---- what in_domain says *)
Definition op_cond (c : case) : bool :=
  match k_op c with
  | 2 => len (k_pat c) =? k_w c
  | 3 | 7 => (len (k_cols c) =? k_w c) && forallb (fun col => len col =? nA c) (k_cols c)
  | 1 => true
  | 8 => (k_k c =? k_w c) && (len (k_pat c) =? len (all_windows c))
  | 9 => (k_k c =? k_w c) && (k_w c =? 1) && (len (k_pat c) =? len (k_rows c)) && forallb (fun r => 0 <=? r) (k_pat c)
  | _ => k_k c =? k_w c
  end.
Lemma in_domain_inv (c : case) : in_domain c = true ->
  2 <= nA c /\ nodupb (k_alpha c) = true
  /\ forallb (forallb (fun x => (0 <=? x) && (x <? nA c))) (k_rows c) = true
  /\ 1 <= k_k c /\ k_k c <= k_w c /\ k_w c <= 31 /\ k_w c <= len (concat (k_rows c)) /\ op_cond c = true.
Proof.
  unfold in_domain. fold (op_cond c). intros H.
  apply andb_true_iff in H. destruct H as [H _].
  apply andb_true_iff in H. destruct H as [H Hop].
  apply andb_true_iff in H. destruct H as [H _].
  apply andb_true_iff in H. destruct H as [H Htot].
  apply andb_true_iff in H. destruct H as [H H31].
  apply andb_true_iff in H. destruct H as [H Hkw].
  apply andb_true_iff in H. destruct H as [H Hk1].
  apply andb_true_iff in H. destruct H as [H Hlet].
  apply andb_true_iff in H. destruct H as [Hn Hnd].
  apply Z.leb_le in Hn, Hk1, Hkw, H31, Htot. tauto.
Qed.

(* ---- labels *)
Lemma flatnonzero_from_first (b : Z) l : forall i d, (d < length l)%nat -> nth d l 0 = b ->
  (forall j, (j < d)%nat -> nth j l 0 <> b) ->
  exists rest, flatnonzero_from i (map (Z.eqb b) l) = (i + Z.of_nat d) :: rest.
Proof.
  induction l as [|x l IH]; intros i d Hd Hn Hbefore; [cbn in Hd; lia|].
  destruct d as [|d].
  - cbn in Hn. subst x. cbn [map flatnonzero_from]. rewrite Z.eqb_refl. eexists. cbn [app]. f_equal. lia.
  - cbn [map flatnonzero_from]. assert (x <> b) by (apply (Hbefore 0%nat); lia).
    destruct (Z.eqb_spec b x); [congruence|]. cbn [app].
    destruct (IH (i + 1) d ltac:(cbn in Hd; lia) Hn) as [rest E].
    { intros j Hj. apply (Hbefore (S j)). lia. }
    exists rest. rewrite E. f_equal. lia.
Qed.

Lemma nodupb_nth l : nodupb l = true -> forall i j, (i < j)%nat -> (j < length l)%nat -> nth i l 0 <> nth j l 0.
Proof.
  induction l as [|x l IH]; intros H i j Hij Hj; [cbn in Hj; lia|].
  cbn [nodupb] in H. apply andb_true_iff in H. destruct H as [H1 H2].
  destruct j as [|j]; [lia|]. destruct i as [|i].
  - cbn [nth]. intros E. apply negb_true_iff in H1.
    assert (existsb (Z.eqb x) l = true); [|congruence].
    apply existsb_exists. exists (nth j l 0). split; [apply nth_In; cbn in Hj; lia|apply Z.eqb_eq; exact E].
  - cbn [nth]. apply IH; [exact H2|lia|cbn in Hj; lia].
Qed.

Lemma index_in_nth alpha d : nodupb alpha = true -> 0 <= d < len alpha -> index_in alpha (nthZ alpha d) = d.
Proof.
  intros Hnd Hd. unfold index_in, positions, flatnonzero, nthZ.
  destruct (flatnonzero_from_first (nth (Z.to_nat d) alpha 0) alpha 0 (Z.to_nat d)) as [rest E].
  - unfold len in Hd. lia.
  - reflexivity.
  - intros j Hj. apply nodupb_nth; [exact Hnd|exact Hj|unfold len in Hd; lia].
  - rewrite E. lia.
Qed.

Lemma labels_model_ok (c : case) : in_domain c = true ->
  k_labels c = labels (k_alpha c) (nA c) (k_w c) -> labels_ok c = true.
Proof.
  intros Hdom E. destruct (in_domain_inv c Hdom) as [Hn [Hnd [_ [Hk1 [Hkw _]]]]].
  assert (Hw : 1 <= k_w c) by lia.
  unfold labels_ok. rewrite E. unfold labels.
  assert (Hp : 0 <= nA c ^ k_w c) by (apply Z.pow_nonneg; lia).
  assert (Hl : len (map (to_string (k_alpha c) (nA c) (k_w c)) (arange (nA c ^ k_w c))) = nA c ^ k_w c).
  { unfold len, arange. rewrite map_length.
    assert (forall s m, length (arange_from s m) = m) as L by (intros s m; revert s; induction m; intros; cbn; congruence).
    rewrite L. lia. }
  rewrite Hl, Z.eqb_refl. cbn [andb].
  unfold arange at 1. unfold arange.
  set (m := Z.to_nat (nA c ^ k_w c)).
  assert (G : forall s, 0 <= s -> s + Z.of_nat m <= nA c ^ k_w c ->
            all_true (map (fun '(i, lab) => (len lab =? k_w c)
                              && forallb (fun b => 0 <=? index_in (k_alpha c) b) lab
                              && (le_value (nA c) (map (index_in (k_alpha c)) lab) =? i))
                          (combine (arange_from s m) (map (to_string (k_alpha c) (nA c) (k_w c)) (arange_from s m)))) = true).
  { induction m as [|m IH]; intros s Hs Hsm; [reflexivity|].
    cbn [arange_from map combine all_true]. apply andb_true_iff. split; [|apply IH; lia].
    destruct (decode_kmer_value (nA c) (k_w c) s Hn ltac:(lia) ltac:(lia)) as [V1 [V2 V3]].
    unfold letters_ok in V3. rewrite Forall_forall in V3.
    unfold to_string, text_of.
    assert (M : map (index_in (k_alpha c)) (map (nthZ (k_alpha c)) (decode_kmer (nA c) (k_w c) s)) = decode_kmer (nA c) (k_w c) s).
    { rewrite map_map. rewrite <- (map_id (decode_kmer (nA c) (k_w c) s)) at 2. apply map_ext_in.
      intros d Hd. apply index_in_nth; [exact Hnd|]. apply V3. exact Hd. }
    rewrite M, V1, Z.eqb_refl. unfold len. rewrite map_length. fold (len (decode_kmer (nA c) (k_w c) s)).
    rewrite V2, Z.eqb_refl. cbn [andb]. rewrite andb_true_r.
    apply forallb_forall. intros b Hb. apply in_map_iff in Hb. destruct Hb as [d [<- Hd]].
    rewrite index_in_nth; [|exact Hnd|apply V3; exact Hd].
    apply Z.leb_le. apply V3 in Hd. lia. }
  replace (Z.to_nat (len (map (to_string (k_alpha c) (nA c) (k_w c)) (arange_from 0 m)))) with m.
  - apply G; lia.
  - unfold len. rewrite map_length.
    assert (forall s m, length (arange_from s m) = m) as L by (intros s m'; revert s; induction m'; intros; cbn; congruence).
    rewrite L. lia.
Qed.

Lemma model_ok_op (c : case) : model_ok c = true ->
  k_op c = 0 \/ k_op c = 1 \/ k_op c = 2 \/ k_op c = 3 \/ k_op c = 4 \/ k_op c = 5 \/ k_op c = 6 \/ k_op c = 7
  \/ k_op c = 8 \/ k_op c = 9.
Proof.
  unfold model_ok. destruct (k_op c) as [|p|p]; [tauto| |discriminate].
  destruct p as [[[[?|?|]|[?|?|]|]|[[?|?|]|[?|?|]|]|]|[[[?|?|]|[?|?|]|]|[[?|?|]|[?|?|]|]|]|]; try discriminate; tauto.
Qed.

Lemma rows_close_refl_eq tol a b b' : b = b' -> rows_close tol a b = true -> rows_close tol a b' = true.
Proof. intros ->. exact (fun H => H). Qed.

Section Sound.
  Context (c : case) (Hdom : in_domain c = true) (Hm : model_ok c = true).
  Let D := in_domain_inv c Hdom.

  Lemma sound_w1 : 1 <= k_w c.
  Proof. destruct D as [_ [_ [_ [? [? _]]]]]. lia. Qed.

  Lemma sound_letters : letters_ok (nA c) (concat (k_rows c)) /\ Forall (letters_ok (nA c)) (k_rows c).
  Proof. apply letters_concat. exact (proj1 (proj2 (proj2 D))). Qed.

  Lemma sound_domk k : k <= k_w c -> kmer_domain (nA c) k (k_rows c).
  Proof.
    intros Hk E. destruct D as [_ [_ [_ [_ [_ [H31 _]]]]]]. split; [lia|]. rewrite <- E. exact (proj1 sound_letters).
  Qed.

  Lemma sound_window win : In win (all_windows c) ->
    letters_ok (nA c) win /\ k_w c = len win.
  Proof.
    intros Hin. unfold all_windows in Hin. apply in_concat in Hin. destruct Hin as [ws [Hws Hin]].
    apply in_map_iff in Hws. destruct Hws as [r [<- Hr]]. split.
    - destruct sound_letters as [_ Lr]. rewrite Forall_forall in Lr.
      exact (windows_In_letters (nA c) (wn c) r win (Lr r Hr) Hin).
    - apply windows_In_length in Hin. unfold wn in Hin. pose proof sound_w1. unfold len. lia.
  Qed.

  Lemma sound_window_text win : In win (all_windows c) ->
    to_string (k_alpha c) (nA c) (k_w c) (le_value (nA c) win) = text_of (k_alpha c) win.
  Proof.
    intros Hin. destruct (sound_window win Hin) as [Lw Ew]. destruct D as [Hn _]. rewrite Ew.
    destruct (kmer_code_le (nA c) win) as [_ E1]. rewrite <- E1. apply to_string_encode; assumption.
  Qed.

  Lemma spec_kmers_concat : concat (spec_kmers (nA c) (wn c) (k_rows c)) = map (le_value (nA c)) (all_windows c).
  Proof. unfold spec_kmers, per_row, all_windows. rewrite concat_map, map_map. reflexivity. Qed.

  Lemma sound_op0 : k_op c = 0 -> spec_ok c = true.
  Proof.
    intros Eop. pose proof sound_w1 as Hw. unfold spec_ok, model_ok in *. rewrite Hdom. rewrite Eop in *. cbn [andb].
    assert (Er : kmers_rows c = k_rows c) by (unfold kmers_rows, kmers_unencoded_dense_rows, dense_rows_fixed; destruct (k_kind c =? 3); reflexivity).
    rewrite Er in Hm.
    apply andb_true_iff in Hm. destruct Hm as [Hm' Hl].
    apply andb_true_iff in Hm'. destruct Hm' as [He Ho]. rewrite He. cbn [andb].
    apply zll_eqb_eq in Ho, Hl. rewrite Hl, Ho. unfold get_kmers.
    rewrite get_kmers_row_local; [|lia|apply keeps_stop_of; lia|apply sound_domk; lia].
    fold (wn c). rewrite zll_eqb_refl. cbn [andb].
    rewrite spec_kmers_concat, map_map. apply zll_eqb_eq. apply map_ext_in. exact sound_window_text.
  Qed.

  Lemma sound_op1 : k_op c = 1 -> spec_ok c = true.
  Proof.
    intros Eop. destruct D as [_ [_ [_ [Hk1 [Hkw [_ [Htot _]]]]]]].
    unfold spec_ok, model_ok in *. rewrite Hdom. rewrite Eop in *. cbn [andb].
    unfold get_minimizers in Hm.
    rewrite minimizers_row_local in Hm; [|lia|lia|lia|apply keeps_stop_of; lia|apply keeps_stop_of; lia].
    apply andb_true_iff in Hm. destruct Hm as [He Ho]. rewrite He. cbn [andb]. exact Ho.
  Qed.

  Lemma sound_op2 : k_op c = 2 -> spec_ok c = true.
  Proof.
    intros Eop. pose proof sound_w1 as Hw. destruct D as [_ [_ [_ [_ [_ [_ [_ Hop]]]]]]]. unfold op_cond in Hop.
    unfold spec_ok, model_ok in *. rewrite Hdom. rewrite Eop in *. cbn [andb]. apply Z.eqb_eq in Hop.
    apply andb_true_iff in Hm. destruct Hm as [He Ho]. rewrite He. cbn [andb].
    apply zll_eqb_eq in Ho. rewrite Ho. unfold match_string.
    rewrite match_string_row_local; [apply zll_eqb_refl|lia|].
    generalize (keeps_stop_of (len (k_pat c)) ltac:(lia)). unfold len. rewrite Nat2Z.id. exact (fun K => K).
  Qed.

  Lemma sound_motif_eq : (k_op c = 3 \/ k_op c = 7) ->
    get_motif_scores (k_cols c) (motif_rows c) = spec_motif (k_cols c) (k_rows c).
  Proof.
    intros Eop. pose proof sound_w1 as Hw. destruct D as [_ [_ [_ [_ [_ [_ [_ Hop]]]]]]]. unfold op_cond in Hop.
    assert (Hl : len (k_cols c) = k_w c).
    { destruct Eop as [E|E]; rewrite E in Hop; apply andb_true_iff in Hop; destruct Hop as [Hop _]; apply Z.eqb_eq in Hop; exact Hop. }
    assert (Er : motif_rows c = k_rows c) by (unfold motif_rows, motif_dense_rows, dense_rows_fixed; destruct (k_kind c =? 0); reflexivity).
    rewrite Er. unfold get_motif_scores.
    apply motif_row_local; [lia|].
    generalize (keeps_stop_of (len (k_cols c)) ltac:(lia)). unfold len. rewrite Nat2Z.id. exact (fun K => K).
  Qed.

  Lemma sound_op3 : k_op c = 3 -> spec_ok c = true.
  Proof.
    intros Eop. pose proof (sound_motif_eq (or_introl Eop)) as E.
    unfold spec_ok, model_ok in *. rewrite Hdom. rewrite Eop in *. cbn [andb].
    apply andb_true_iff in Hm. destruct Hm as [He Ho]. rewrite He. cbn [andb].
    rewrite E in Ho. exact Ho.
  Qed.

  Lemma sound_op7 : k_op c = 7 -> spec_ok c = true.
  Proof.
    intros Eop. pose proof (sound_motif_eq (or_intror Eop)) as E.
    unfold spec_ok, model_ok in *. rewrite Hdom. rewrite Eop in *. cbn [andb].
    apply andb_true_iff in Hm. destruct Hm as [He Ho]. rewrite He. cbn [andb].
    rewrite E in Ho. exact Ho.
  Qed.

  Lemma sound_op4 : k_op c = 4 -> spec_ok c = true.
  Proof.
    intros Eop. pose proof sound_w1 as Hw. unfold spec_ok, model_ok in *. rewrite Hdom. rewrite Eop in *. cbn [andb].
    apply andb_true_iff in Hm. destruct Hm as [Hm' Hl].
    apply andb_true_iff in Hm'. destruct Hm' as [He Ho]. rewrite He. cbn [andb].
    apply zll_eqb_eq in Ho, Hl. rewrite (labels_model_ok c Hdom Hl), andb_true_r. rewrite Ho.
    unfold count_kmers_flat. rewrite count_flat_row_local; [apply zll_eqb_refl|lia|apply keeps_stop_of; lia|apply sound_domk; lia].
  Qed.

  Lemma sound_op5 : k_op c = 5 -> spec_ok c = true.
  Proof.
    intros Eop. pose proof sound_w1 as Hw. unfold spec_ok, model_ok in *. rewrite Hdom. rewrite Eop in *. cbn [andb].
    apply andb_true_iff in Hm. destruct Hm as [Hm' Hl].
    apply andb_true_iff in Hm'. destruct Hm' as [He Ho]. rewrite He. cbn [andb].
    apply zll_eqb_eq in Ho, Hl. rewrite (labels_model_ok c Hdom Hl), andb_true_r. rewrite Ho.
    unfold count_kmers_rows. rewrite count_rows_row_local; [apply zll_eqb_refl|lia|apply keeps_stop_of; lia|apply sound_domk; lia].
  Qed.

  Lemma sound_op6 : k_op c = 6 -> spec_ok c = true.
  Proof.
    intros Eop. unfold spec_ok, model_ok in *. rewrite Hdom. rewrite Eop in *. cbn [andb].
    apply andb_true_iff in Hm. destruct Hm as [He Ho]. rewrite He. cbn [andb].
    apply zll_eqb_eq in Ho. rewrite Ho. apply zll_eqb_eq. apply map_ext_in. intros win Hin.
    destruct (sound_window win Hin) as [Lw Ew]. cbv zeta.
    assert (E1 : encode_kmer (nA c) (k_w c) win = le_value (nA c) win)
      by (rewrite Ew; apply (kmer_code_le (nA c) win)).
    rewrite E1. rewrite sound_window_text by exact Hin. reflexivity.
  Qed.
  Lemma sound_op8 : k_op c = 8 -> spec_ok c = true.
  Proof.
    intros Eop. pose proof sound_w1 as Hw. unfold spec_ok, model_ok in *. rewrite Hdom. rewrite Eop in *. cbn [andb].
    apply andb_true_iff in Hm. destruct Hm as [Hm' Hl].
    apply andb_true_iff in Hm'. destruct Hm' as [He Ho]. rewrite He. cbn [andb].
    apply zll_eqb_eq in Ho, Hl. rewrite (labels_model_ok c Hdom Hl), andb_true_r. rewrite Ho.
    unfold count_weighted, count_weighted_with.
    rewrite get_kmers_row_local; [apply zll_eqb_refl|lia|apply keeps_stop_of; lia|apply sound_domk; lia].
  Qed.

  Lemma sound_op9 : k_op c = 9 -> spec_ok c = true.
  Proof.
    intros Eop. unfold spec_ok, model_ok in *. rewrite Hdom. rewrite Eop in *. cbn [andb].
    apply andb_true_iff in Hm. destruct Hm as [Hm' Hl].
    apply andb_true_iff in Hm'. destruct Hm' as [He Ho]. rewrite He. cbn [andb].
    apply zll_eqb_eq in Hl. rewrite (labels_model_ok c Hdom Hl), andb_true_r. exact Ho.
  Qed.
End Sound.

(* every input form: ragged collection, one sequence as a 1-d array, equal-length sequences as a dense 2-d array
   (encoded or not) — now that get_motif_scores and change_encoding keep the rows of a 2-d input (/repo 56c9986, d2972ec) *)
Theorem model_ok_implies_spec_ok (c : case) :
  in_domain c = true -> model_ok c = true -> spec_ok c = true.
Proof.
  intros Hdom Hm.
  destruct (model_ok_op c Hm) as [E|[E|[E|[E|[E|[E|[E|[E|[E|E]]]]]]]]].
  - apply sound_op0; assumption.
  - apply sound_op1; assumption.
  - apply sound_op2; assumption.
  - apply sound_op3; assumption.
  - apply sound_op4; assumption.
  - apply sound_op5; assumption.
  - apply sound_op6; assumption.
  - apply sound_op7; assumption.
  - apply sound_op8; assumption.
  - apply sound_op9; assumption.
Qed.

(* the two dense routes as they are at /repo HEAD (dense_rows_pinned: the 2-d input is treated as ONE row): the
   result is not the per-row value — stated about the pinned route itself, so it survives the one-line switches *)
Theorem dense_routes_refuted :
  let rows := [[0;1;2;3]; [3;3;2;0]; [1;1;1;0]] in                 (* ACGT, TTGA, CCCA as a 3 x 4 array *)
  let cols := [[1;10;100;1000]; [2;20;200;2000]] in
  get_motif_scores_with stop_fixed cols (dense_rows_pinned rows) = [[21; 210; 2100; 3000; 3000; 1200; 102; 21; 30; 30; 12]]
  /\ get_motif_scores_with stop_fixed cols (dense_rows_pinned rows) <> spec_motif cols rows
  /\ get_kmers_with stop_fixed 4 2 (dense_rows_pinned rows) = [[4; 9; 14; 15; 15; 11; 2; 4; 5; 5; 1]]
  /\ get_kmers_with stop_fixed 4 2 (dense_rows_pinned rows) <> spec_kmers 4 2 rows
  /\ get_motif_scores_with stop_fixed cols (dense_rows_fixed rows) = spec_motif cols rows
  /\ get_kmers_with stop_fixed 4 2 (dense_rows_fixed rows) = spec_kmers 4 2 rows.
Proof. vm_compute. repeat split; try reflexivity; discriminate. Qed.

(* Proofs/C12_link.v — the link between the two verdicts the check evaluates per case (Corr/C12.v):
   for the genome route at /repo HEAD, a case on which the implementation agrees with the model (model_ok)
   satisfies the property (spec_ok), for every well-formed case (gen_ok) with at least one included contig. *)
From Coq Require Import ZArith List Bool Lia Arith.
From BNP Require Import Base.Prims Corr.C12 Proofs.C12 Proofs.C12_groupby Proofs.C12_pull Proofs.C12_e2e.
Import ListNotations.
Open Scope Z_scope.

(* ---------- reflection of the boolean tests of gen_ok ---------- *)
Lemma list_eqb_eq {A} (eqb : A -> A -> bool) (H : forall a b, eqb a b = true <-> a = b) :
  forall l1 l2, list_eqb eqb l1 l2 = true <-> l1 = l2.
Proof.
  induction l1 as [|x l1 IH]; intros [|y l2]; simpl; split; intros E; try reflexivity; try discriminate.
  - apply andb_true_iff in E. destruct E as [E1 E2]. apply H in E1. apply IH in E2. congruence.
  - inversion E; subst. apply andb_true_iff. split; [apply H; reflexivity|apply IH; reflexivity].
Qed.
Lemma row_eqb_eq (a b : bname * Z) : row_eqb a b = true <-> a = b.
Proof.
  destruct a as [n i], b as [m j]. unfold row_eqb. simpl. rewrite andb_true_iff, zlist_eqb_eq, Z.eqb_eq.
  split; [intros [-> ->]; reflexivity|intros E; inversion E; auto].
Qed.
Lemma rows_eqb_eq l1 l2 : rows_eqb l1 l2 = true <-> l1 = l2.
Proof. apply list_eqb_eq. exact row_eqb_eq. Qed.
Lemma nodup_b_NoDup l : nodup_b l = true -> NoDup l.
Proof.
  induction l as [|x l IH]; simpl; intros H; [constructor|].
  apply andb_true_iff in H. destruct H as [H1 H2]. constructor; [|apply IH; exact H2].
  intros Hin. apply negb_true_iff in H1. assert (existsb (zlist_eqb x) l = true); [|congruence].
  apply existsb_exists. exists x. split; [exact Hin|apply zlist_eqb_eq; reflexivity].
Qed.

(* ---------- well-formed groups: their entries are contiguous and their runs are the groups ---------- *)
Local Notation runs := (runs bname zlist_eqb).
Lemma neqb_refl_b (n : bname) : zlist_eqb n n = true.
Proof. apply zlist_eqb_eq. reflexivity. Qed.
Lemma runs_one_group n : forall ids E R, ids <> [] -> runs E = R ->
  match R with (n', _) :: _ => n' <> n | [] => True end ->
  runs (map (pair n) ids ++ E) = (n, ids) :: R.
Proof.
  induction ids as [|i ids IH]; intros E R Hne HR Hhd; [congruence|].
  destruct ids as [|i2 ids'].
  - simpl. rewrite HR. destruct R as [|[n' ids''] gs]; [reflexivity|].
    assert (zlist_eqb n n' = false) as ->; [|reflexivity].
    destruct (zlist_eqb n n') eqn:E1; auto. apply zlist_eqb_eq in E1. congruence.
  - change (map (pair n) (i :: i2 :: ids') ++ E) with ((n, i) :: (map (pair n) (i2 :: ids') ++ E)).
    rewrite (runs_cons bname zlist_eqb). rewrite (IH E R) by (auto; discriminate).
    unfold push. simpl. rewrite neqb_refl_b. reflexivity.
Qed.
Lemma runs_entries_of : forall D,
  NoDup (map fst D) -> Forall (fun g : bname * ids => snd g <> []) D -> runs (entries_of D) = D.
Proof.
  induction D as [|[n ids] D IH]; intros Hnd Hne; [reflexivity|].
  simpl in *. inversion Hnd; subst. inversion Hne; subst.
  apply runs_one_group.
  - assumption.
  - apply IH; assumption.
  - destruct D as [|[n' ids'] D']; [exact I|]. intros ->. apply H1. left; reflexivity.
Qed.
Lemma keys_entries_of D x : In x (map fst (entries_of D)) -> In x (map fst D).
Proof.
  induction D as [|[n ids] D IH]; simpl; [auto|]. rewrite map_app, in_app_iff. intros [H|H]; [|right; auto].
  left. rewrite map_map in H. simpl in H. apply in_map_iff in H. destruct H as [? [<- _]]. reflexivity.
Qed.
Lemma contiguous_prepend (m : bname) l1 l2 :
  (forall x, In x l1 -> x = m) -> ~ In m l2 -> contiguous bname l2 -> contiguous bname (l1 ++ l2).
Proof.
  intros H1 Hm H2 a n b c E x Hx.
  apply app_eq_app in E. destruct E as [l [[Ea Ec]|[Ea Ec]]].
  - (* l1 = a ++ l,  n :: b ++ n :: c = l ++ l2 *)
    destruct l as [|n' l'].
    + simpl in Ec. apply (H2 [] n b c); [simpl; symmetry; exact Ec|exact Hx].
    + simpl in Ec. inversion Ec as [[En Er]]. subst n'.
      assert (Hnm : n = m). { apply H1. rewrite Ea. apply in_or_app. right. left. reflexivity. }
      symmetry in Er. apply app_eq_app in Er. destruct Er as [l'' [[Eb Ec2]|[Eb Ec2]]].
      * (* l' = b ++ l'' : b lies inside l1 *)
        rewrite Hnm. apply H1. rewrite Ea, Eb. apply in_or_app. right. right. apply in_or_app. left. exact Hx.
      * (* b = l' ++ l'', l2 = l'' ++ n :: c : the second n lies in l2 *)
        exfalso. apply Hm. rewrite Ec2, <- Hnm. apply in_or_app. right. left. reflexivity.
  - (* a = l1 ++ l, l2 = l ++ n :: b ++ n :: c *)
    apply (H2 l n b c); auto.
Qed.
Lemma contiguous_entries_of : forall D, NoDup (map fst D) -> contiguous bname (map fst (entries_of D)).
Proof.
  induction D as [|[n ids] D IH]; intros Hnd.
  - intros a n b c E. destruct a; discriminate.
  - simpl in *. inversion Hnd; subst. rewrite map_app. apply (contiguous_prepend n).
    + intros x Hx. rewrite map_map in Hx. simpl in Hx. apply in_map_iff in Hx. destruct Hx as [? [<- _]]. reflexivity.
    + intros Hin. apply H1. apply keys_entries_of. exact Hin.
    + apply IH. exact H2.
Qed.

(* ---------- from "the model's observation meets the spec" to the boolean verdicts ---------- *)
Lemma link_one {A} (eqb : A -> A -> bool) (m : res A) (exp : option A) (o : res A) :
  match exp with Some a => m = Done a | None => exists c, m = Err c end ->
  res_eqb eqb m o = true -> meets eqb exp o = true.
Proof.
  destruct exp as [a|]; [intros ->|intros [c ->]]; destruct o; simpl; auto; discriminate.
Qed.
Lemma link_all {A} (eqb : A -> A -> bool) (m : res A) (exp : option A) (l : list (res A)) :
  match exp with Some a => m = Done a | None => exists c, m = Err c end ->
  all_ok (res_eqb eqb m) l = true -> all_ok (meets eqb exp) l = true.
Proof.
  intros H. unfold all_ok. rewrite !andb_true_iff. intros [H1 H2]. split; [exact H1|].
  rewrite forallb_forall in *. intros o Ho. eapply link_one; eauto.
Qed.

Theorem genome_route_link (c : case) :
  k_route c = 0 -> gen_ok c = true ->
  ctx_included bname zlist_eqb has_underscore (k_keepall c) (k_genome c) (k_extra c) <> [] ->
  model_ok c = true -> spec_ok c = true.
Proof.
  intros Hr Hg Hincl Hm. unfold spec_ok, model_ok in *. rewrite Hg, Hr in *. simpl in *.
  unfold gen_ok in Hg. rewrite !andb_true_iff in Hg. destruct Hg as [[[[G1 G2] G3] G4] G5].
  apply rows_eqb_eq in G1. apply nodup_b_NoDup in G2. apply nodup_b_NoDup in G3.
  assert (Hne : Forall (fun g : bname * ids => snd g <> []) (k_groups c)).
  { apply Forall_forall. intros g Hgin. rewrite forallb_forall in G4. specialize (G4 g Hgin). destruct g as [gn gl]. simpl in *. destruct gl; simpl in G4; [discriminate G4|discriminate]. }
  assert (Hch : Forall (fun ch : list (bname * Z) => ch <> []) (k_chunks c)).
  { apply Forall_forall. intros g Hgin. rewrite forallb_forall in G5. specialize (G5 g Hgin). simpl in G5. destruct g; simpl in G5; [discriminate G5|discriminate]. }
  assert (Hc : contiguous bname (bkeys (concat (k_chunks c)))).
  { unfold bkeys. rewrite G1. apply contiguous_entries_of. exact G2. }
  assert (HD : runs (concat (k_chunks c)) = k_groups c). { rewrite G1. apply runs_entries_of; auto. }
  pose proof (head_genome_end_to_end (k_keepall c) (k_genome c) (k_extra c) (k_chunks c)
                (repeat 0 (length (ctx_included bname zlist_eqb has_underscore (k_keepall c) (k_genome c) (k_extra c))))
                G3 Hch Hc Hincl (repeat_length _ _)) as H.
  simpl in H. rewrite HD in H.
  rewrite !andb_true_iff in Hm. destruct Hm as [[[[[[[[[M1 M2] M3] _] _] _] _] _] _] _].
  rewrite !andb_true_iff. repeat split.
  - eapply link_all; [|exact M1].
    destruct (spec_sync bname zlist_eqb ids [] _ _ (k_groups c)); simpl; apply H.
  - eapply link_all; [|exact M2].
    destruct (spec_sync bname zlist_eqb ids [] _ _ (k_groups c)); simpl; apply H.
  - eapply link_all; [|exact M3].
    destruct (spec_sync bname zlist_eqb ids [] _ _ (k_groups c)); simpl; apply H.
Qed.

(* ---------- MultiStream route: the attribute run to its end always; the zip's second stream and the contingency
   table for order-compatible data (for the rest see the known finding) ---------- *)
Lemma gen_ok_facts (c : case) : gen_ok c = true ->
  NoDup (k_genome c) /\ NoDup (map fst (k_groups c))
  /\ Forall (fun ch : list (bname * Z) => ch <> []) (k_chunks c)
  /\ contiguous bname (bkeys (concat (k_chunks c))) /\ runs (concat (k_chunks c)) = k_groups c.
Proof.
  intros Hg. unfold gen_ok in Hg. rewrite !andb_true_iff in Hg. destruct Hg as [[[[G1 G2] G3] G4] G5].
  apply rows_eqb_eq in G1. apply nodup_b_NoDup in G2. apply nodup_b_NoDup in G3.
  assert (Hne : Forall (fun g : bname * ids => snd g <> []) (k_groups c)).
  { apply Forall_forall. intros g Hgin. rewrite forallb_forall in G4. specialize (G4 g Hgin).
    destruct g as [gn gl]. simpl in *. destruct gl; simpl in G4; [discriminate G4|discriminate]. }
  assert (Hch : Forall (fun ch : list (bname * Z) => ch <> []) (k_chunks c)).
  { apply Forall_forall. intros g Hgin. rewrite forallb_forall in G5. specialize (G5 g Hgin). simpl in G5.
    destruct g; simpl in G5; [discriminate G5|discriminate]. }
  repeat split; auto.
  - unfold bkeys. rewrite G1. apply contiguous_entries_of. exact G2.
  - rewrite G1. apply runs_entries_of; auto.
Qed.

Theorem multistream_route_link (c : case) :
  k_route c = 1 -> gen_ok c = true -> k_genome c <> [] -> model_ok c = true -> spec_ok c = true.
Proof.
  intros Hr Hg H0 Hm. destruct (gen_ok_facts c Hg) as [Ho [HD [Hch [Hc HR]]]].
  unfold spec_ok, model_ok in *. rewrite Hg, Hr in *. simpl in *.
  destruct (table_is_one_chunk_stream (k_genome c) (k_chunks c) Hch Hc) as [_ Htab]. rewrite Htab in Hm.
  unfold multistream_trace in Hm.
  pose proof (head_multistream_end_to_end (k_genome c) (k_chunks c) Ho H0 Hch Hc) as H. simpl in H. rewrite HR in H.
  set (exp := spec_sync bname zlist_eqb ids [] (k_genome c) [] (k_groups c)) in *.
  set (t := synched_head (k_genome c) (grouped bname zlist_eqb (k_chunks c))) in *.
  rewrite !andb_true_iff in Hm. destruct Hm as [[[[[[[[[M1 M2] M3] _] _] _] _] T1] T2] T3].
  assert (HL : match exp with Some a => pull_all t = Done a | None => exists cd, pull_all t = Err cd end).
  { destruct exp; apply H. }
  assert (HZ : match exp with Some a => pull_n (length (k_genome c)) t = Done a
                         | None => exists cd, pull_n (length (k_genome c)) t = Err cd end).
  { destruct exp as [a|] eqn:Ee.
    - destruct H as [_ [H2 _]]. rewrite H2. rewrite <- (spec_sync_length bname zlist_eqb ids [] _ _ _ _ Ee). rewrite firstn_all. reflexivity.
    - destruct H as [_ [H2 _]]. apply H2. lia. }
  assert (HC : match option_map (fun a => (len (k_genome c), len (concat a))) exp with
               | Some v => res_map (fun a => (len (k_genome c), len (concat a))) (pull_n (length (k_genome c)) t) = Done v
               | None => exists cd, res_map (fun a => (len (k_genome c), len (concat a))) (pull_n (length (k_genome c)) t) = Err cd end).
  { destruct exp as [a|]; simpl.
    - rewrite HZ. reflexivity.
    - destruct HZ as [cd HZ]. rewrite HZ. exists cd. reflexivity. }
  rewrite !andb_true_iff. repeat split.
  - eapply link_all; [exact HL|exact M1].
  - eapply link_all; [exact HZ|exact M2].
  - eapply link_all; [exact HC|exact M3].
  - eapply link_all; [exact HL|exact T1].
  - eapply link_all; [exact HZ|exact T2].
  - eapply link_all; [exact HC|exact T3].
Qed.

(* ---------- left_join route ---------- *)
Lemma arange_from_length s n : length (arange_from s n) = n.
Proof. revert s. induction n; intros s; simpl; [reflexivity|]. rewrite IHn. reflexivity. Qed.
Lemma sizes_of_names G : map fst (sizes_of G) = G.
Proof.
  unfold sizes_of. assert (H : length (arange (len G)) = length G).
  { unfold arange, len. rewrite arange_from_length, Nat2Z.id. reflexivity. }
  revert H. generalize (arange (len G)). induction G as [|g G IH]; intros l H; [reflexivity|].
  destruct l; [discriminate|]. simpl. f_equal. apply IH. simpl in H. lia.
Qed.
Lemma combine_assign {S} (left : list (bname * S)) (R : list (bname * ids)) :
  combine left (assign bname zlist_eqb (option ids) None (map fst left) (lift bname ids R)) = lj_expected bname zlist_eqb S ids left R.
Proof.
  unfold assign, lj_expected. induction left as [|[c s] left IH]; [reflexivity|]. simpl. f_equal. exact IH.
Qed.
Lemma not_ignored_nil {P} (D : list (bname * P)) : not_ignored bname zlist_eqb P [] D = D.
Proof. unfold not_ignored. induction D as [|g D IH]; simpl; [reflexivity|]. f_equal. exact IH. Qed.

Theorem left_join_route_link (c : case) :
  k_route c <> 0 -> k_route c <> 1 -> gen_ok c = true -> model_ok c = true -> spec_ok c = true.
Proof.
  intros H0 H1 Hg Hm. destruct (gen_ok_facts c Hg) as [Ho [HD [Hch [Hc HR]]]].
  unfold spec_ok, model_ok in *. rewrite Hg in *.
  apply Z.eqb_neq in H0. apply Z.eqb_neq in H1. rewrite H0, H1 in *. simpl in *.
  rewrite !andb_true_iff in Hm. destruct Hm as [[[[[[[[[M1 _] _] _] _] _] _] _] _] _].
  rewrite (grouped_chunk_invariant bname zlist_eqb zlist_eqb_eq _ Hch Hc), HR in M1.
  eapply link_all; [|exact M1].
  pose proof (left_join_spec bname zlist_eqb zlist_eqb_eq Z ids (sizes_of (k_genome c)) (k_groups c)) as H.
  rewrite sizes_of_names in H. specialize (H Ho HD).
  unfold spec_sync. rewrite not_ignored_nil.
  change (map fst (map (fun g : bname * ids => (fst g, Some (snd g))) (k_groups c))) with (map fst (lift bname ids (k_groups c))).
  rewrite (lift_names bname ids).
  destruct (subseq_b bname zlist_eqb (map fst (k_groups c)) (k_genome c)); simpl in *.
  - unfold pull_all. rewrite H. simpl. f_equal.
    pose proof (combine_assign (sizes_of (k_genome c)) (k_groups c)) as CA. rewrite sizes_of_names in CA.
    symmetry. exact CA.
  - destruct H as [ys [cd H]]. exists cd. unfold pull_all. rewrite H. reflexivity.
Qed.

(* Proofs/C06_link.v — the link between the two verdicts of Corr/C06.v: whatever the (repaired) model
   returns satisfies spec_ok, for every well-formed case of any size. *)
From Coq Require Import ZArith List Bool Lia Arith.
From BNP Require Import Base.Prims Base.PrimsFacts Model.C06 Corr.C06 Proofs.C06.
Import ListNotations.
Open Scope Z_scope.


Lemma spec_decode_firstn_skipn A n : forall codes t, spec_decode A codes = Some t ->
  spec_decode A (firstn n codes) = Some (firstn n t) /\ spec_decode A (skipn n codes) = Some (skipn n t).
Proof.
  induction n as [|n IH]; intros codes t H. simpl. auto.
  destruct codes as [|k r]; simpl in H.
  - inversion H; subst. simpl. auto.
  - destruct ((0 <=? k) && (k <? len A)) eqn:E; [|discriminate].
    destruct (spec_decode A r) as [t'|] eqn:Er; [|discriminate]. inversion H; subst.
    destruct (IH r t' Er) as [I1 I2]. simpl. rewrite E, I1. auto.
Qed.

Lemma spec_decode_unflatten A lens : forall codes t, spec_decode A codes = Some t ->
  spec_decode_rows A (unflatten lens codes) = Some (unflatten lens t).
Proof.
  induction lens as [|n lens IH]; intros codes t H; simpl. reflexivity.
  destruct (spec_decode_firstn_skipn A n codes t H) as [H1 H2].
  rewrite H1, (IH _ _ H2). reflexivity.
Qed.

Lemma decode_enc_dec e codes : decode_enc e codes = dec e codes.
Proof. destruct e; simpl. reflexivity. apply decode_flat_spec. Qed.

Lemma zll_refl x : zll_eqb x x = true.
Proof. apply zll_eqb_eq. reflexivity. Qed.

Lemma decodes_to_unflatten dst lens codes t : dec dst codes = Some t ->
  decodes_to dst (unflatten lens codes) (unflatten lens t) = true.
Proof.
  destruct dst as [|rb]; simpl; intros H.
  - inversion H; subst. apply zll_refl.
  - fold (alphabet_of rb). rewrite (spec_decode_unflatten _ lens _ _ H). simpl. apply zll_refl.
Qed.

(* kind 0: encoding a text, any route, any number of rows *)
Lemma link_encode ru c raw :
  k_kind c = 0 -> k_dst c = Alpha raw -> alphabet_ok (alphabet_of raw) -> Forall (Forall byte) (k_rows c) ->
  spec_ok (set_out c (model_out_with lower_fixed ru c)) = true.
Proof.
  intros Hk Hd HA Hb. unfold spec_ok, model_out_with. simpl. rewrite Hk, Hd. simpl.
  fold (alphabet_of raw). set (A := alphabet_of raw) in *. set (rows := k_rows c) in *.
  destruct (encode_rows_fixed_exact (k_route c) A rows HA Hb) as [P1 P2].
  destruct (forallb (text_ok A) rows) eqn:Et.
  - destruct (P1 eq_refl) as [codes [E1 E2]]. rewrite E1. simpl. rewrite decode_flat_spec.
    (* the flat decode *)
    assert (Hf : spec_decode A codes = Some (map upper (concat rows))).
    { unfold encode_rows in E1. rewrite <- text_ok_concat in Et.
      rewrite (no_high_byte A _ HA Et), andb_false_r in E1. inversion E1 as [E1'].
      destruct (encode_fixed_exact A (concat rows) HA (Forall_concat_byte _ Hb)) as [Q _].
      destruct (Q Et) as [cs [F1 F2]]. rewrite F1 in E1'. inversion E1'; subst. exact F2. }
    fold A. rewrite Hf. rewrite unflatten_map. rewrite zll_refl. simpl.
    rewrite E2. simpl. apply zll_refl.
  - destruct (P2 eq_refl) as [U|[o [U _]]].
    + destruct (encode_rows lower_fixed (k_route c) A rows) as [r l]. simpl in U. subst r. reflexivity.
    + destruct (encode_rows lower_fixed (k_route c) A rows) as [r l]. simpl in U. subst r. reflexivity.
Qed.

(* kind 1: already encoded data presented to another encoding (repaired rule) *)
Lemma link_retarget L c ra :
  k_kind c = 1 -> k_src c = Alpha ra ->
  Forall (fun k => 0 <= k < len (alphabet_of ra)) (concat (k_rows c)) ->
  spec_ok (set_out c (model_out_with L RFixed c)) = true.
Proof.
  intros Hk Hs Hw. unfold spec_ok, model_out_with. simpl. rewrite Hk. simpl. rewrite Hs.
  set (flat := concat (k_rows c)) in *. set (lens := lens_of (k_rows c)).
  destruct (spec_decode_same _ _ Hw) as [t Ht].
  destruct (retarget RFixed (Alpha ra) (k_dst c) flat) as [codes'| | | |] eqn:E; simpl; try reflexivity.
  destruct (retarget_fixed_sound (Alpha ra) (k_dst c) flat codes' t E Ht) as [Ec Hd].
  { intros raw Er. inversion Er; subst. exact Hw. }
  subst codes'. rewrite decode_enc_dec, Hd.
  fold (alphabet_of ra).
  assert (Hr : spec_decode_rows (alphabet_of ra) (k_rows c) = Some (unflatten lens t)).
  { rewrite <- (unflatten_concat (k_rows c)) at 1. apply spec_decode_unflatten. exact Ht. }
  rewrite Hr. rewrite zll_refl. simpl. apply decodes_to_unflatten. exact Hd.
Qed.

(* kind 2: change_encoding (repaired table) *)
Lemma link_change ru c ra :
  k_kind c = 2 -> k_src c = Alpha ra -> alphabet_ok (alphabet_of ra) ->
  (forall rb, k_dst c = Alpha rb -> alphabet_ok (alphabet_of rb)) ->
  spec_ok (set_out c (model_out_with lower_fixed ru c)) = true.
Proof.
  intros Hk Hs HA HB. unfold spec_ok, model_out_with. simpl. rewrite Hk. simpl. rewrite Hs.
  set (flat := concat (k_rows c)) in *. set (lens := lens_of (k_rows c)).
  destruct (change lower_fixed (Alpha ra) (k_dst c) flat) as [codes'| | | |] eqn:E; simpl; try reflexivity.
  destruct (change_fixed_sound ra (k_dst c) flat codes' HA HB E) as [t [Ht Hd]].
  rewrite decode_enc_dec, Hd. fold (alphabet_of ra).
  assert (Hr : spec_decode_rows (alphabet_of ra) (k_rows c) = Some (unflatten lens t)).
  { rewrite <- (unflatten_concat (k_rows c)) at 1. apply spec_decode_unflatten. exact Ht. }
  rewrite Hr. rewrite zll_refl. simpl. apply decodes_to_unflatten. exact Hd.
Qed.

(* kind 3: the one-byte acceptance table *)
Lemma byte_code_lookup L A b : alphabet_ok A -> table_wf L A -> byte b -> table_ok_at L A b ->
  byte_code L A b = lookup L A b.
Proof.
  intros HA HW Hb Ht. unfold byte_code.
  rewrite (encode_flat_gen L A [b] HA HW) by (constructor; [split; assumption|constructor]).
  simpl. destruct (lookup_exact_gen L A b HA HW Hb Ht) as [_ H2].
  destruct (member A b); simpl. reflexivity. symmetry. apply H2. reflexivity.
Qed.

Lemma all_true_combine_map (g : Z * Z -> bool) (f : Z -> Z) l :
  all_true (map g (combine l (map f l))) = forallb (fun b => g (b, f b)) l.
Proof. induction l as [|x l IH]; simpl. reflexivity. rewrite IH. reflexivity. Qed.

Lemma link_table c raw :
  k_kind c = 3 -> k_dst c = Alpha raw -> alphabet_ok (alphabet_of raw) -> len (k_table c) <= 256 ->
  k_alpha c = alphabet_of raw ->
  k_table c = map (byte_code lower_fixed (alphabet_of raw)) (arange (len (k_table c))) ->
  spec_ok c = true.
Proof.
  intros Hk Hd HA Hn Ha Ht. unfold spec_ok. rewrite Hk. simpl. rewrite Hd. simpl.
  fold (alphabet_of raw). set (A := alphabet_of raw) in *. rewrite Ha.
  replace (zlist_eqb A A) with true by (symmetry; apply zlist_eqb_eq; reflexivity). simpl.
  rewrite Ht at 2. rewrite all_true_combine_map. apply forallb_forall. intros b Hb.
  apply In_arange in Hb. assert (Bb : byte b) by (unfold byte; lia).
  rewrite (byte_code_lookup lower_fixed A b HA (lower_fixed_wf A HA) Bb (lower_fixed_ok_at A b HA)).
  destruct (lookup_fixed_exact A b HA Bb) as [H1 H2].
  destruct (member A b).
  - destruct (H1 eq_refl) as [R E]. rewrite E, Z.eqb_refl.
    replace (0 <=? lookup lower_fixed A b) with true by (symmetry; apply Z.leb_le; lia).
    replace (lookup lower_fixed A b <? len A) with true by (symmetry; apply Z.ltb_lt; lia). reflexivity.
  - rewrite (H2 eq_refl). reflexivity.
Qed.

(* kind 4: numeric offset encodings — whatever the model returns satisfies spec_ok *)
From BNP Require Import Proofs.C06_ext.

Lemma map_len_map_map (f : Z -> Z) rows : zlist_eqb (map len (map (map f) rows)) (map len rows) = true.
Proof.
  apply zlist_eqb_eq. rewrite map_map. apply map_ext. intros r. unfold len. rewrite map_length. reflexivity.
Qed.

Lemma link_numeric L v c mc :
  k_kind c = 4 -> k_alpha c = [mc] -> 0 <= mc -> Forall (Forall byte) (k_rows c) ->
  spec_ok (set_out c (model_out_ext L v c)) = true.
Proof.
  intros Hk Ha Hmc Hb. unfold spec_ok, model_out_ext. simpl. rewrite Hk, Ha. simpl.
  change (nthZ [mc] 0) with mc.
  destruct (k_route c =? 9) eqn:E9.
  - unfold num_rows. rewrite E9. simpl. rewrite zll_refl. simpl. apply zll_eqb_eq. reflexivity.
  - destruct (is_str_route (k_route c) && existsb (fun c0 => 128 <=? c0) (concat (k_rows c))) eqn:Eu.
    + unfold num_rows. rewrite E9, Eu. reflexivity.
    + rewrite (num_rows_roundtrip (k_route c) mc (k_rows c) Hb) by (try (apply Z.eqb_neq; exact E9); exact Eu).
      cbv iota beta. rewrite zll_refl, map_len_map_map. simpl.
      rewrite <- concat_map. rewrite all_true_combine_map. apply forallb_forall. intros b Hin.
      assert (Bb : byte b).
      { clear - Hb Hin. induction Hb as [|r rows Hr _ IH]; simpl in Hin. contradiction.
        apply in_app_or in Hin as [H|H]. rewrite Forall_forall in Hr. apply Hr; exact H. apply IH; exact H. }
      assert (R : 0 <= num_encode_u8 b mc < 256) by (unfold num_encode_u8; apply Z.mod_pos_bound; lia).
      replace (0 <=? num_encode_u8 b mc) with true by (symmetry; apply Z.leb_le; lia).
      replace (num_encode_u8 b mc <? 256) with true by (symmetry; apply Z.ltb_lt; lia). simpl.
      destruct (mc <=? b) eqn:Em; [|reflexivity]. apply Z.leb_le in Em. unfold byte in Bb.
      destruct (num_encode_u8_in_range b mc Hmc) as [Eq _]. lia. rewrite Eq. apply Z.eqb_refl.
Qed.

(* kind 5: StringEncoding, repaired variant (verify = true) *)
Lemma find_pos_some q ls : forall i j, find_pos q ls i = Some j ->
  exists k : nat, j = i + Z.of_nat k /\ (k < length ls)%nat /\ nth k ls [] = q.
Proof.
  induction ls as [|l r IH]; intros i j H; simpl in H. discriminate.
  destruct (zlist_eqb l q) eqn:E.
  - assert (j = i) by congruence. subst j. exists O. simpl. split. lia. split. lia. apply zlist_eqb_eq. exact E.
  - apply IH in H as [k [Hj [Hk Hn]]]. exists (S k). simpl. split. lia. split. lia. exact Hn.
Qed.

Lemma find_pos_none q ls : forall i, find_pos q ls i = None -> ~ In q ls.
Proof.
  induction ls as [|l r IH]; intros i H; simpl in *. tauto.
  destruct (zlist_eqb l q) eqn:E. discriminate.
  intros [H1|H1]. subst. assert (zlist_eqb q q = true) by (apply zlist_eqb_eq; reflexivity). congruence.
  eapply IH; eauto.
Qed.

Lemma str_encode_true_all_known labels : nodupb (map str_hash labels) = true -> forall qs,
  forallb (fun q => match find_pos q labels 0 with Some _ => true | None => false end) qs = true ->
  exists idx, all_some (map (str_lookup true labels) qs) = Some idx
    /\ list_eqb2 (fun a b => match b with Some j => a =? j | None => false end) idx (map (fun q => find_pos q labels 0) qs) = true.
Proof.
  intros Hn. induction qs as [|q qs IH]; intros H; simpl in *. exists []. auto.
  apply andb_true_iff in H as [H1 H2]. destruct (IH H2) as [idx [E1 E2]].
  destruct (find_pos q labels 0) as [j|] eqn:Ep; [|discriminate].
  apply find_pos_some in Ep as [k [Hj [Hk Hq]]]. simpl in Hj. subst j.
  subst q. rewrite (str_lookup_label true labels k Hn Hk). rewrite E1.
  exists (Z.of_nat k :: idx). split. reflexivity. simpl. rewrite Z.eqb_refl, E2. reflexivity.
Qed.

Lemma link_string c n :
  k_kind c = 5 -> k_alpha c = [Z.of_nat n] ->
  nodupb (map str_hash (firstn n (k_rows c))) = true ->
  spec_ok (set_out c (model_out_ext lower_fixed true c)) = true.
Proof.
  intros Hk Ha Hn. unfold spec_ok, model_out_ext. simpl. rewrite Hk, Ha. simpl.
  change (nthZ [Z.of_nat n] 0) with (Z.of_nat n). rewrite Nat2Z.id.
  set (labels := firstn n (k_rows c)) in *. set (qs := skipn n (k_rows c)).
  destruct (forallb (fun q => match find_pos q labels 0 with Some _ => true | None => false end) qs) eqn:Ef.
  - destruct (str_encode_true_all_known labels Hn qs Ef) as [idx [E1 E2]].
    assert (Es : str_encode true labels qs = Ok idx) by (unfold str_encode; rewrite Hn, E1; reflexivity).
    rewrite Es, (str_encode_true_sound labels qs idx Es). simpl. rewrite zll_refl, E2. reflexivity.
  - assert (Hex : exists q, In q qs /\ ~ In q labels).
    { clear - Ef. induction qs as [|q qs IH]; simpl in Ef. discriminate.
      destruct (find_pos q labels 0) eqn:Ep.
      - simpl in Ef. destruct (IH Ef) as [q' [H1 H2]]. exists q'. split. right; exact H1. exact H2.
      - exists q. split. left; reflexivity. eapply find_pos_none; eauto. }
    destruct Hex as [q [Hq Hl]]. rewrite (str_encode_true_reject labels qs q Hn Hq Hl). reflexivity.
Qed.

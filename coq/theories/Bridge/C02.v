(* Bridge/C02.v — the index / offset arithmetic regenerated from /repo (Gen/C02.v, written by translate/run.py from
   delimited_buffers.py, file_buffers.py, vcf_buffers.py, buffers/sam.py, named_text_buffer.py) is the arithmetic
   Model/C02.v uses and the theorems of Props/C02.v are about.  Re-checked on every run: a changed offset, comparison,
   constant, slice or statement order in the source makes one of these lemmas fail. *)
From Coq Require Import ZArith Lia Bool.
From BNP Require Import Model.C02 Gen.C02.
Open Scope Z_scope.

Ltac bridge := intros; cbv beta delta [
  gen_n_fields gen_frb_size gen_frb_keep gen_frb_sentinel gen_frb_sentinel_pos gen_gbe_start gen_gbe_end
  gen_gbe_entry_start_col gen_gbe_entry_end gen_gbe_entry_ends_before_cr gen_cr_probe gen_cr_byte gen_cr_elem_probe
  gen_cr_adjust gen_mida_width gen_mida_index gen_mida_n_fill gen_mida_fill_start gen_field_len gen_gfbn_first
  gen_gfbn_step gen_gfbn_keep_len gen_vcf_shift_col gen_vcf_shift gen_sam_extra_start gen_sam_extra_len
  gen_hfm_line_len gen_hfm_ignored gen_value_start gen_value_len gen_value_keep_len gen_stop_len m_stop_len gen_flag_len_match m_flag_len_match
  gen_sam_extra_end0 gen_sam_extra_probe gen_sam_extra_end gen_sam_entry_ends_before_cr gen_sam_last_field gen_sam_cr_probe
  gen_sam_cr_adjust m_extra_end0 m_extra_probe m_extra_end
  m_n_fields m_size m_keep m_sentinel m_start m_entry_end m_entry_ends_before_cr m_cr_probe m_cr_byte m_cr_adjust
  m_mida_n_fill m_mida_index m_keep_end m_pos_shift m_pos_shift_col m_extra_start m_extra_len m_line_len m_ignored
  m_value_start m_value_len] zeta;
  first [reflexivity | ring | lia].

(* from_raw_buffer / _get_n_fields *)
Lemma b_n_fields : forall e0, gen_n_fields e0 = m_n_fields e0.  Proof. bridge. Qed.
Lemma b_frb_size : forall d, gen_frb_size d = m_size d.  Proof. bridge. Qed.
Lemma b_frb_keep : forall e, gen_frb_keep e = m_keep e.  Proof. bridge. Qed.
Lemma b_frb_sentinel : gen_frb_sentinel = m_sentinel /\ gen_frb_sentinel_pos = 0.  Proof. split; bridge. Qed.
(* _get_buffer_extractor: field k starts one past the delimiter before it and ends at the delimiter after it *)
Lemma b_gbe_start : forall dp dn n, gen_gbe_start dp dn n = m_start dp.  Proof. bridge. Qed.
Lemma b_gbe_end : forall dp dn n, gen_gbe_end dp dn n = dn.  Proof. bridge. Qed.
Lemma b_gbe_entry : forall e, gen_gbe_entry_start_col = 0 /\ gen_gbe_entry_end e = m_entry_end e
                              /\ gen_gbe_entry_ends_before_cr = m_entry_ends_before_cr.
Proof. repeat split; bridge. Qed.
(* _modify_for_carriage_return *)
Lemma b_cr_probe : forall e, gen_cr_probe e = m_cr_probe e /\ gen_cr_elem_probe e = m_cr_probe e.  Proof. split; bridge. Qed.
Lemma b_cr_byte : gen_cr_byte = m_cr_byte.  Proof. bridge. Qed.
Lemma b_cr_adjust : forall e c, gen_cr_adjust e c = m_cr_adjust e c.  Proof. bridge. Qed.
(* move_intervals_to_digit_array *)
Lemma b_mida_width : forall s e, gen_mida_width s e = e - s.  Proof. bridge. Qed.
Lemma b_mida_index : forall s e mx j, gen_mida_index s e mx j = m_mida_index e mx j.  Proof. bridge. Qed.
Lemma b_mida_n_fill : forall s e mx, gen_mida_n_fill s e mx = m_mida_n_fill s e mx.  Proof. bridge. Qed.
Lemma b_mida_fill_start : forall row n mx, gen_mida_fill_start row n mx = row * mx.  Proof. bridge. Qed.
(* get_padded_field(stop_at=':'): a cell is cut at the first ':' of its window only if that ':' lies inside the cell *)
Lemma b_stop_len : forall l p, gen_stop_len l p = m_stop_len l p.  Proof. bridge. Qed.
(* TextBufferExtractor: length = end - start; column j of an n-column table is flat[j::n]; keep_sep adds one byte *)
Lemma b_field_len : forall s e, gen_field_len s e = e - s.  Proof. bridge. Qed.
Lemma b_gfbn_select : forall j n, gen_gfbn_first j n = j /\ gen_gfbn_step j n = n.  Proof. split; bridge. Qed.
Lemma b_gfbn_keep : forall s e, s + gen_gfbn_keep_len (gen_field_len s e) = m_keep_end e.  Proof. bridge. Qed.
(* VCF position *)
Lemma b_vcf_shift : forall v, gen_vcf_shift_col = m_pos_shift_col /\ gen_vcf_shift v = m_pos_shift v.  Proof. split; bridge. Qed.
(* SAM rest-of-line field *)
Lemma b_sam_extra_start : forall s e, gen_sam_extra_start s (gen_field_len s e) = m_extra_start e.  Proof. bridge. Qed.
Lemma b_sam_extra_end : forall ee e c, gen_sam_extra_end0 ee = m_extra_end0 ee /\ gen_sam_extra_probe e = m_extra_probe e
                                       /\ gen_sam_extra_end e c = m_extra_end e c.
Proof. repeat split; bridge. Qed.
Lemma b_sam_extra_len : forall en st, gen_sam_extra_len en st = m_extra_len en st.  Proof. bridge. Qed.
(* SAMBuffer CR handling: record ends before the adjustment, the last end of a row (flat index cumsum - 1) moves before a CR *)
Lemma b_sam_cr : forall cum e c, gen_sam_entry_ends_before_cr = m_entry_ends_before_cr /\ gen_sam_last_field cum = cum - 1
                                 /\ gen_sam_cr_probe e = m_cr_probe e /\ gen_sam_cr_adjust e c = m_cr_adjust e c.
Proof. repeat split; bridge. Qed.
(* INFO key lookup *)
Lemma b_hfm_line_len : forall k, gen_hfm_line_len k = m_line_len k.  Proof. bridge. Qed.
Lemma b_hfm_ignored : forall s k size, gen_hfm_ignored s k size = m_ignored s k size.  Proof. bridge. Qed.
Lemma b_flag_len_match : forall l k, gen_flag_len_match l k = m_flag_len_match l k.  Proof. bridge. Qed.
Lemma b_value_start : forall s k, gen_value_start s k = m_value_start s k.  Proof. bridge. Qed.
Lemma b_value_len : forall l k, gen_value_len l k = m_value_len l k false
                                /\ gen_value_keep_len (gen_value_len l k) = m_value_len l k true.
Proof. split; bridge. Qed.

(* ---------- wrapped FASTA: MultiLineFastaBuffer.from_raw_buffer / get_data / _modify_ends_for_carriage_returns ---------- *)
Ltac bridge_fa := intros; cbv beta delta [
  gen_fa_marker gen_fa_next gen_fa_cut gen_fa_line_start gen_fa_entry_line gen_fa_last_end gen_fa_cr_window gen_fa_cr_probe
  gen_fa_cr_byte gen_fa_cr_elem_probe gen_fa_cr_adjust gen_fa_n_lines gen_fa_total gen_fa_name_from
  m_fa_next m_fa_cut m_fa_line_start m_fa_entry_line m_fa_last_end m_fa_cr_window m_fa_n_lines m_fa_total m_fa_name_from
  m_cr_probe m_cr_byte m_cr_adjust] zeta;
  first [reflexivity | ring | lia].
(* the byte after a line break is compared with '>'; the chunk is cut one past the last line break that is followed by '>' *)
Lemma b_fa_scan : forall p, gen_fa_marker = 62 /\ gen_fa_next p = m_fa_next p /\ gen_fa_cut p = m_fa_cut p.
Proof. repeat split; bridge_fa. Qed.
(* line k starts one past line break k-1 (line 0 at 0); the last line ends at size-1; header line of entry k+1 is line new_entries[k]+1 *)
Lemma b_fa_lines : forall p size, gen_fa_line_start p = m_fa_line_start p /\ gen_fa_last_end size = m_fa_last_end size
                                  /\ gen_fa_entry_line p = m_fa_entry_line p.
Proof. repeat split; bridge_fa. Qed.
(* CR: looked for before the first 10 line ends, removed per line *)
Lemma b_fa_cr : forall e c, gen_fa_cr_window = m_fa_cr_window /\ gen_fa_cr_probe e = m_cr_probe e /\ gen_fa_cr_elem_probe e = m_cr_probe e
                            /\ gen_fa_cr_byte = m_cr_byte /\ gen_fa_cr_adjust e c = m_cr_adjust e c.
Proof. repeat split; bridge_fa. Qed.
(* sequence lines per entry = distance between header lines - 1, the list closed by (number of line breaks + 1); name = line minus its first byte *)
Lemma b_fa_counts : forall d nl, gen_fa_n_lines d = m_fa_n_lines d /\ gen_fa_total nl = m_fa_total nl /\ gen_fa_name_from = m_fa_name_from.
Proof. repeat split; bridge_fa. Qed.

(* ---------- GFF3 / wig interior comments: DelimitedBufferWithInernalComments ---------- *)
Ltac bridge_ic := intros; cbv beta delta [gen_ic_probe gen_ic_end_del gen_ic_sentinel gen_ic_start gen_ic_n_fields gen_ic_cr_adjusts
  m_ic_probe m_ic_end_del m_ic_sentinel m_ic_start m_ic_n_fields ic_cr_adjusts] zeta; first [reflexivity | ring | lia].
(* the byte after a line break is compared with '#'; the delimiter after that line break is deleted from the ends; -1 is put
   in front of the starts; starts are delimiters + 1; the column count is the index of the first line break + 1; CR adjusted *)
Lemma b_ic : forall d k i, gen_ic_probe d = m_ic_probe d /\ gen_ic_end_del k = m_ic_end_del k /\ gen_ic_sentinel = m_ic_sentinel
                           /\ gen_ic_start d = m_ic_start d /\ gen_ic_n_fields i = m_ic_n_fields i /\ gen_ic_cr_adjusts = ic_cr_adjusts.
Proof. repeat split; bridge_ic. Qed.

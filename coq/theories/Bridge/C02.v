(* Bridge/C02.v — the index / offset arithmetic regenerated from /repo (Gen/C02.v, written by translate/run.py from
   delimited_buffers.py, file_buffers.py, vcf_buffers.py, buffers/sam.py, named_text_buffer.py) is the arithmetic
   Model/C02.v uses and the theorems of Props/C02.v are about.  Re-checked on every run: a changed offset, comparison,
   constant, slice or statement order in the source makes one of these lemmas fail. *)
From Coq Require Import ZArith Lia Bool.
From BNP Require Import Model.C02 Gen.C02.
Open Scope Z_scope.

Ltac bridge := intros; cbv beta delta [
  gen_n_fields gen_frb_size gen_frb_keep gen_frb_sentinel gen_frb_sentinel_pos gen_gbe_start gen_gbe_end
  gen_gbe_entry_start_col gen_gbe_entry_end gen_gbe_entry_ends_before_cr gen_cr_probe gen_cr_byte gen_cr_elem_probe
  gen_cr_adjust gen_mida_width gen_mida_index gen_mida_n_fill gen_mida_fill_start gen_field_len gen_gfbn_first
  gen_gfbn_step gen_gfbn_keep_len gen_vcf_shift_col gen_vcf_shift gen_sam_extra_start gen_sam_extra_len
  gen_hfm_line_len gen_hfm_ignored gen_value_start gen_value_len gen_value_keep_len gen_stop_len m_stop_len gen_flag_len_match m_flag_len_match
  gen_sam_extra_end0 gen_sam_extra_probe gen_sam_extra_end gen_sam_entry_ends_before_cr gen_sam_last_field gen_sam_cr_probe
  gen_sam_cr_adjust m_extra_end0 m_extra_probe m_extra_end
  m_n_fields m_size m_keep m_sentinel m_start m_entry_end m_entry_ends_before_cr m_cr_probe m_cr_byte m_cr_adjust
  m_mida_n_fill m_mida_index m_keep_end m_pos_shift m_pos_shift_col m_extra_start m_extra_len m_line_len m_ignored
  m_value_start m_value_len] zeta;
  first [reflexivity | ring | lia].

(* from_raw_buffer / _get_n_fields *)
Lemma b_n_fields : forall e0, gen_n_fields e0 = m_n_fields e0.  Proof. bridge. Qed.
Lemma b_frb_size : forall d, gen_frb_size d = m_size d.  Proof. bridge. Qed.
Lemma b_frb_keep : forall e, gen_frb_keep e = m_keep e.  Proof. bridge. Qed.
Lemma b_frb_sentinel : gen_frb_sentinel = m_sentinel /\ gen_frb_sentinel_pos = 0.  Proof. split; bridge. Qed.
(* _get_buffer_extractor: field k starts one past the delimiter before it and ends at the delimiter after it *)
Lemma b_gbe_start : forall dp dn n, gen_gbe_start dp dn n = m_start dp.  Proof. bridge. Qed.
Lemma b_gbe_end : forall dp dn n, gen_gbe_end dp dn n = dn.  Proof. bridge. Qed.
Lemma b_gbe_entry : forall e, gen_gbe_entry_start_col = 0 /\ gen_gbe_entry_end e = m_entry_end e
                              /\ gen_gbe_entry_ends_before_cr = m_entry_ends_before_cr.
Proof. repeat split; bridge. Qed.
(* _modify_for_carriage_return *)
Lemma b_cr_probe : forall e, gen_cr_probe e = m_cr_probe e /\ gen_cr_elem_probe e = m_cr_probe e.  Proof. split; bridge. Qed.
Lemma b_cr_byte : gen_cr_byte = m_cr_byte.  Proof. bridge. Qed.
Lemma b_cr_adjust : forall e c, gen_cr_adjust e c = m_cr_adjust e c.  Proof. bridge. Qed.
(* move_intervals_to_digit_array *)
Lemma b_mida_width : forall s e, gen_mida_width s e = e - s.  Proof. bridge. Qed.
Lemma b_mida_index : forall s e mx j, gen_mida_index s e mx j = m_mida_index e mx j.  Proof. bridge. Qed.
Lemma b_mida_n_fill : forall s e mx, gen_mida_n_fill s e mx = m_mida_n_fill s e mx.  Proof. bridge. Qed.
Lemma b_mida_fill_start : forall row n mx, gen_mida_fill_start row n mx = row * mx.  Proof. bridge. Qed.
(* get_padded_field(stop_at=':'): a cell is cut at the first ':' of its window only if that ':' lies inside the cell *)
Lemma b_stop_len : forall l p, gen_stop_len l p = m_stop_len l p.  Proof. bridge. Qed.
(* TextBufferExtractor: length = end - start; column j of an n-column table is flat[j::n]; keep_sep adds one byte *)
Lemma b_field_len : forall s e, gen_field_len s e = e - s.  Proof. bridge. Qed.
Lemma b_gfbn_select : forall j n, gen_gfbn_first j n = j /\ gen_gfbn_step j n = n.  Proof. split; bridge. Qed.
Lemma b_gfbn_keep : forall s e, s + gen_gfbn_keep_len (gen_field_len s e) = m_keep_end e.  Proof. bridge. Qed.
(* VCF position *)
Lemma b_vcf_shift : forall v, gen_vcf_shift_col = m_pos_shift_col /\ gen_vcf_shift v = m_pos_shift v.  Proof. split; bridge. Qed.
(* SAM rest-of-line field *)
Lemma b_sam_extra_start : forall s e, gen_sam_extra_start s (gen_field_len s e) = m_extra_start e.  Proof. bridge. Qed.
Lemma b_sam_extra_end : forall ee e c, gen_sam_extra_end0 ee = m_extra_end0 ee /\ gen_sam_extra_probe e = m_extra_probe e
                                       /\ gen_sam_extra_end e c = m_extra_end e c.
Proof. repeat split; bridge. Qed.
Lemma b_sam_extra_len : forall en st, gen_sam_extra_len en st = m_extra_len en st.  Proof. bridge. Qed.
(* SAMBuffer CR handling: record ends before the adjustment, the last end of a row (flat index cumsum - 1) moves before a CR *)
Lemma b_sam_cr : forall cum e c, gen_sam_entry_ends_before_cr = m_entry_ends_before_cr /\ gen_sam_last_field cum = cum - 1
                                 /\ gen_sam_cr_probe e = m_cr_probe e /\ gen_sam_cr_adjust e c = m_cr_adjust e c.
Proof. repeat split; bridge. Qed.
(* INFO key lookup *)
Lemma b_hfm_line_len : forall k, gen_hfm_line_len k = m_line_len k.  Proof. bridge. Qed.
Lemma b_hfm_ignored : forall s k size, gen_hfm_ignored s k size = m_ignored s k size.  Proof. bridge. Qed.
Lemma b_flag_len_match : forall l k, gen_flag_len_match l k = m_flag_len_match l k.  Proof. bridge. Qed.
Lemma b_value_start : forall s k, gen_value_start s k = m_value_start s k.  Proof. bridge. Qed.
Lemma b_value_len : forall l k, gen_value_len l k = m_value_len l k false
                                /\ gen_value_keep_len (gen_value_len l k) = m_value_len l k true.
Proof. split; bridge. Qed.

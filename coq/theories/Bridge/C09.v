(* Bridge/C09.v — the formulas regenerated from /repo (Gen/C09.v: arithmetics/intervals.py from_bedgraph /
   from_intervals / to_array, genomic_data/genomic_track.py slice bounds, genomic_data/global_offset.py) are the
   named formulas the model of Model/C09.v is written with (part 1), and the few formulas the model spells
   differently are equal to the model's spelling for all inputs (part 2, "use" lemmas).
   Re-checked on every run; a changed comparison, offset, appended element, slot or insert position in the
   source changes Gen/C09.v and makes one of these fail. *)
From Coq Require Import ZArith List Bool Lia.
From BNP Require Import Base.Prims Model.C09 Model.C09_pileup Gen.C09.
Import ListNotations.
Open Scope Z_scope.

Ltac bridge := intros; cbv beta delta [
  gen_bg_empty_events gen_bg_empty_values gen_bg_is_gap gen_bg_gap_pos gen_bg_gap_value gen_bg_gap_shape gen_bg_fits
  gen_bg_ends_at_size gen_bg_tail_at gen_bg_tail_before gen_bg_tail_values_before gen_bg_tail_shape gen_bg_needs_prefix
  gen_bg_prefix_pos gen_bg_prefix_event gen_bg_prefix_value gen_bg_prefix_shape
  gen_iv_assert_nonempty gen_iv_assert_ordered gen_iv_has_prefix gen_iv_prefix gen_iv_has_postfix gen_iv_postfix
  gen_iv_n_events gen_iv_start_slot gen_iv_end_slot gen_iv_edge_shape gen_iv_n_values gen_iv_default_slot gen_iv_value_slot
  gen_iv_array_trailing_default gen_iv_array_shape gen_iv_drop_first gen_iv_drop_count gen_iv_keep gen_iv_return_shape
  gen_ta_diff gen_ta_shape gen_td_lo gen_td_hi gen_td_shape gen_ec_lo gen_ec_hi gen_ec_shape gen_gd_lo gen_gd_hi gen_gd_stop
  gen_gd_shape gen_af_shape gen_go_offsets np_insert_front gen_go_start_bad gen_go_start_negative gen_go_stop_ok gen_go_start gen_go_stop
  gen_go_shape gen_pu_is_empty gen_pu_empty_events gen_pu_empty_values gen_pu_shape gen_gpu_shape
  m_pu_is_empty m_pu_empty_events m_pu_empty_values m_pu_shape m_gpu_shape
  m_bg_empty_events m_bg_empty_values m_bg_is_gap m_bg_gap_pos m_bg_gap_value m_bg_gap_shape m_bg_fits m_bg_ends_at_size
  m_bg_tail_at m_bg_tail_before m_bg_tail_values_before m_bg_tail_shape m_bg_needs_prefix m_bg_prefix_pos m_bg_prefix_event
  m_bg_prefix_value m_bg_prefix_shape m_iv_assert_nonempty m_iv_assert_ordered m_iv_has_prefix m_iv_prefix m_iv_has_postfix
  m_iv_postfix m_iv_n_events m_iv_start_slot m_iv_end_slot m_iv_edge_shape m_iv_n_pairs m_iv_default_slot m_iv_value_slot
  m_iv_array_trailing_default m_iv_array_shape m_iv_drop_first m_iv_drop_count m_iv_keep m_iv_return_shape m_xor m_ta_shape
  m_slice_lo m_slice_hi m_af_shape m_td_shape m_ec_shape m_gd_shape m_go_start_bad m_go_start_negative m_go_stop_ok m_go_shift m_go_shape
  offsets] zeta;
  first [reflexivity | ring | lia].

(* ---------------- part 1: Gen = named formula of the model ---------------- *)
(* from_bedgraph *)
Lemma b_bg_empty_events : forall size, gen_bg_empty_events size = m_bg_empty_events size. Proof. bridge. Qed.
Lemma b_bg_empty_values : gen_bg_empty_values = m_bg_empty_values. Proof. bridge. Qed.
Lemma b_bg_is_gap : forall next_start prev_stop, gen_bg_is_gap next_start prev_stop = m_bg_is_gap next_start prev_stop. Proof. bridge. Qed.
Lemma b_bg_gap_pos : forall i, gen_bg_gap_pos i = m_bg_gap_pos i. Proof. bridge. Qed.
Lemma b_bg_gap_value : gen_bg_gap_value = m_bg_gap_value. Proof. bridge. Qed.
Lemma b_bg_gap_shape : gen_bg_gap_shape = m_bg_gap_shape. Proof. bridge. Qed.
Lemma b_bg_fits : forall last_stop size, gen_bg_fits last_stop size = m_bg_fits last_stop size. Proof. bridge. Qed.
Lemma b_bg_ends_at_size : forall size last_stop, gen_bg_ends_at_size size last_stop = m_bg_ends_at_size size last_stop. Proof. bridge. Qed.
Lemma b_bg_tail_at : forall size last_stop, gen_bg_tail_at size last_stop = m_bg_tail_at size last_stop. Proof. bridge. Qed.
Lemma b_bg_tail_before : forall size last_stop, gen_bg_tail_before size last_stop = m_bg_tail_before size last_stop. Proof. bridge. Qed.
Lemma b_bg_tail_values_before : gen_bg_tail_values_before = m_bg_tail_values_before. Proof. bridge. Qed.
Lemma b_bg_tail_shape : gen_bg_tail_shape = m_bg_tail_shape. Proof. bridge. Qed.
Lemma b_bg_needs_prefix : forall e0, gen_bg_needs_prefix e0 = m_bg_needs_prefix e0. Proof. bridge. Qed.
Lemma b_bg_prefix : gen_bg_prefix_pos = m_bg_prefix_pos /\ gen_bg_prefix_event = m_bg_prefix_event
                    /\ gen_bg_prefix_value = m_bg_prefix_value /\ gen_bg_prefix_shape = m_bg_prefix_shape.
Proof. repeat split; bridge. Qed.
(* from_intervals *)
Lemma b_iv_assert_nonempty : forall stop start, gen_iv_assert_nonempty stop start = m_iv_assert_nonempty stop start. Proof. bridge. Qed.
Lemma b_iv_assert_ordered : forall next_start prev_stop, gen_iv_assert_ordered next_start prev_stop = m_iv_assert_ordered next_start prev_stop.
Proof. bridge. Qed.
Lemma b_iv_has_prefix : forall n s0, gen_iv_has_prefix n s0 = m_iv_has_prefix n s0. Proof. bridge. Qed.
Lemma b_iv_prefix : forall size, gen_iv_prefix size = m_iv_prefix size. Proof. bridge. Qed.
Lemma b_iv_has_postfix : forall n e size, gen_iv_has_postfix n e size = m_iv_has_postfix n e size. Proof. bridge. Qed.
Lemma b_iv_postfix : forall size, gen_iv_postfix size = m_iv_postfix size. Proof. bridge. Qed.
Lemma b_iv_n_events : forall a b c d, gen_iv_n_events a b c d = m_iv_n_events a b c d. Proof. bridge. Qed.
Lemma b_iv_start_slot : forall p i, gen_iv_start_slot p i = m_iv_start_slot p i. Proof. bridge. Qed.
Lemma b_iv_end_slot : forall p i, gen_iv_end_slot p i = m_iv_end_slot p i. Proof. bridge. Qed.
Lemma b_iv_edge_shape : gen_iv_edge_shape = m_iv_edge_shape. Proof. bridge. Qed.
Lemma b_iv_n_values : forall n, gen_iv_n_values n = 2 * m_iv_n_pairs n. Proof. bridge. Qed.
Lemma b_iv_default_slot : forall i, gen_iv_default_slot i = m_iv_default_slot i. Proof. bridge. Qed.
Lemma b_iv_value_slot : forall i, gen_iv_value_slot i = m_iv_value_slot i. Proof. bridge. Qed.
Lemma b_iv_array_trailing_default : forall e size, gen_iv_array_trailing_default e size = m_iv_array_trailing_default e size. Proof. bridge. Qed.
Lemma b_iv_array_shape : gen_iv_array_shape = m_iv_array_shape. Proof. bridge. Qed.
Lemma b_iv_drop_first : forall n s0, gen_iv_drop_first n s0 = m_iv_drop_first n s0. Proof. bridge. Qed.
Lemma b_iv_drop_count : gen_iv_drop_count = m_iv_drop_count. Proof. bridge. Qed.
Lemma b_iv_keep : forall n, gen_iv_keep n = m_iv_keep n. Proof. bridge. Qed.
Lemma b_iv_return_shape : gen_iv_return_shape = m_iv_return_shape. Proof. bridge. Qed.
(* to_array *)
Lemma b_ta_diff : forall a b, gen_ta_diff a b = m_xor a b. Proof. bridge. Qed.
Lemma b_ta_shape : gen_ta_shape = m_ta_shape. Proof. bridge. Qed.
(* genomic_track.py *)
Lemma b_td : forall offset size, gen_td_lo offset size = m_slice_lo offset size /\ gen_td_hi offset size = m_slice_hi offset size.
Proof. split; bridge. Qed.
Lemma b_td_shape : gen_td_shape = m_td_shape. Proof. bridge. Qed.
Lemma b_ec : forall offset size, gen_ec_lo offset size = m_slice_lo offset size /\ gen_ec_hi offset size = m_slice_hi offset size.
Proof. split; bridge. Qed.
Lemma b_ec_shape : gen_ec_shape = m_ec_shape. Proof. bridge. Qed.
(* get_data: stops = starts + sizes, then track[start:stop] *)
Lemma b_gd : forall start size, gen_gd_lo start (gen_gd_stop start size) = m_slice_lo start size
                              /\ gen_gd_hi start (gen_gd_stop start size) = m_slice_hi start size.
Proof. split; bridge. Qed.
Lemma b_gd_shape : gen_gd_shape = m_gd_shape. Proof. bridge. Qed.
Lemma b_af_shape : gen_af_shape = m_af_shape. Proof. bridge. Qed.
(* global_offset.py *)
Lemma b_go_offsets : forall sizes, gen_go_offsets sizes = offsets sizes. Proof. bridge. Qed.
Lemma b_go_start_bad : forall s n, gen_go_start_bad s n = m_go_start_bad s n. Proof. bridge. Qed.
Lemma b_go_start_negative : forall s, gen_go_start_negative s = m_go_start_negative s. Proof. bridge. Qed.
Lemma b_go_stop_ok : forall e n, gen_go_stop_ok e n = m_go_stop_ok e n. Proof. bridge. Qed.
Lemma b_go_shift : forall x off, gen_go_start x off = m_go_shift x off /\ gen_go_stop x off = m_go_shift x off.
Proof. split; bridge. Qed.
Lemma b_go_shape : gen_go_shape = m_go_shape. Proof. bridge. Qed.
(* get_pileup (intervals.py) and GenomicIntervalsFull.get_pileup (genomic_intervals.py): the empty-set test and result, and the
   hand-over skeleton to npstructures (RunLength2dArray.from_intervals(start, stop, size).sum(axis=0)) — Model/C09_pileup.v *)
Lemma b_pu_is_empty : forall n, gen_pu_is_empty n = m_pu_is_empty n. Proof. bridge. Qed.
Lemma b_pu_empty_events : forall size, gen_pu_empty_events size = m_pu_empty_events size. Proof. bridge. Qed.
Lemma b_pu_empty_values : gen_pu_empty_values = m_pu_empty_values. Proof. bridge. Qed.
Lemma b_pu_shape : gen_pu_shape = m_pu_shape. Proof. bridge. Qed.
Lemma b_gpu_shape : gen_gpu_shape = m_gpu_shape. Proof. bridge. Qed.

(* ---------------- part 2: the named formula is what the model computes where it is spelled differently ---------------- *)
(* prefix / postfix tests on lists: len(starts) == 0 or starts[0] != 0  <->  match on the list *)
Lemma use_iv_has_prefix : forall starts, m_iv_has_prefix (len starts) (hd 0 starts) = iv_has_prefix starts.
Proof.
  intros [|s0 r]; [reflexivity|]. unfold m_iv_has_prefix, iv_has_prefix. cbn [hd].
  replace (len (s0 :: r) =? 0) with false; [reflexivity|]. symmetry. apply Z.eqb_neq. unfold len. simpl length. lia.
Qed.
Lemma use_iv_has_postfix : forall ends size, m_iv_has_postfix (len ends) (last ends 0) size = iv_has_postfix ends size.
Proof.
  intros [|e0 r] size; [reflexivity|]. unfold m_iv_has_postfix, iv_has_postfix.
  replace (len (e0 :: r) =? 0) with false; [reflexivity|]. symmetry. apply Z.eqb_neq. unfold len. simpl length. lia.
Qed.
(* `values = values[1:]` exactly when there is no prefix event *)
Lemma use_iv_drop_first : forall starts, m_iv_drop_first (len starts) (hd 0 starts) = negb (iv_has_prefix starts).
Proof.
  intros [|s0 r]; [reflexivity|]. unfold m_iv_drop_first, iv_has_prefix. cbn [hd].
  replace (len (s0 :: r) >? 0) with true; [rewrite negb_involutive; reflexivity|].
  symmetry. apply Z.gtb_lt. unfold len. simpl length. lia.
Qed.
(* the two assertions, as the model writes them (s <? e, prev_stop <=? next_start) *)
Lemma use_iv_assert_nonempty : forall stop start, m_iv_assert_nonempty stop start = (start <? stop).
Proof. intros. unfold m_iv_assert_nonempty. apply Z.gtb_ltb. Qed.
Lemma use_iv_assert_ordered : forall next_start prev_stop, m_iv_assert_ordered next_start prev_stop = (prev_stop <=? next_start).
Proof. intros. unfold m_iv_assert_ordered. apply Z.geb_leb. Qed.
(* slots: events[p + 2i] = starts[i], events[p + 1 + 2i] = ends[i] in the model's event list *)
Lemma nth_interleave2 : forall (a b : list Z) (i : nat), length a = length b -> (i < length a)%nat ->
  nth (2 * i) (interleave2 a b) 0 = nth i a 0 /\ nth (2 * i + 1) (interleave2 a b) 0 = nth i b 0.
Proof.
  induction a as [|x a IH]; intros [|y b] i Hl Hi; simpl length in *; try lia.
  destruct i as [|i]; [split; reflexivity|].
  replace (2 * S i)%nat with (S (S (2 * i))) by lia. replace (S (S (2 * i)) + 1)%nat with (S (S (2 * i + 1))) by lia.
  cbn [interleave2 nth]. apply IH; lia.
Qed.
Lemma use_iv_slots : forall starts ends size i, length starts = length ends -> 0 <= i < len starts ->
  let '(events, has_prefix, _) := from_intervals_events starts ends size in
  let p := if has_prefix then 1 else 0 in
  nthZ events (m_iv_start_slot p i) = nthZ starts i /\ nthZ events (m_iv_end_slot p i) = nthZ ends i.
Proof.
  intros starts ends size i Hl Hi. unfold from_intervals_events, m_iv_start_slot, m_iv_end_slot, m_iv_prefix, nthZ, len in *.
  destruct (nth_interleave2 starts ends (Z.to_nat i) Hl ltac:(lia)) as [A B].
  assert (L2 : (2 * Z.to_nat i + 1 < length (interleave2 starts ends))%nat).
  { clear A B. assert (G : forall (a b : list Z), length a = length b -> length (interleave2 a b) = (2 * length a)%nat).
    { induction a as [|x a IH]; intros [|y b] H; simpl in *; try lia. rewrite (IH b) by lia. lia. }
    rewrite (G _ _ Hl). lia. }
  destruct (iv_has_prefix starts).
  - replace (Z.to_nat (1 + 2 * i)) with (S (2 * Z.to_nat i)) by lia.
    replace (Z.to_nat (1 + 1 + 2 * i)) with (S (2 * Z.to_nat i + 1)) by lia.
    cbn [app nth]. rewrite !app_nth1 by lia. split; assumption.
  - replace (Z.to_nat (0 + 2 * i)) with (2 * Z.to_nat i)%nat by lia.
    replace (Z.to_nat (0 + 1 + 2 * i)) with (2 * Z.to_nat i + 1)%nat by lia.
    cbn [app]. rewrite !app_nth1 by lia. split; assumption.
Qed.
(* values[2i] = default, values[1 + 2i] = value in the model's alternating list *)
Lemma use_iv_value_slots : forall (n : nat) (d v : Z * Z) i, 0 <= i < Z.of_nat n ->
  nth (Z.to_nat (m_iv_default_slot i)) (alternate n d v) (0, 0) = d
  /\ nth (Z.to_nat (m_iv_value_slot i)) (alternate n d v) (0, 0) = v.
Proof.
  intros n d v i Hi. unfold m_iv_default_slot, m_iv_value_slot.
  replace (Z.to_nat (2 * i)) with (2 * Z.to_nat i)%nat by lia.
  replace (Z.to_nat (1 + 2 * i)) with (S (2 * Z.to_nat i)) by lia.
  assert (Hn : (Z.to_nat i < n)%nat) by lia. clear Hi. revert n Hn. generalize (Z.to_nat i). intros j.
  induction j as [|j IH]; intros [|n] Hn; try lia; [split; reflexivity|].
  replace (2 * S j)%nat with (S (S (2 * j))) by lia. cbn [alternate nth]. apply IH. lia.
Qed.
(* the range checks of start_ends_from_intervals as one accept condition *)
Lemma use_go_checks : forall s e n,
  (negb (m_go_start_bad s n) && negb (m_go_start_negative s) && m_go_stop_ok e n) = ((0 <=? s) && (s <? n) && (e <=? n)).
Proof.
  intros. unfold m_go_start_bad, m_go_start_negative, m_go_stop_ok.
  destruct (Z.geb_spec s n), (Z.ltb_spec s 0), (Z.leb_spec e n), (Z.leb_spec 0 s), (Z.ltb_spec s n); try reflexivity; lia.
Qed.

(* Bridge/C14.v — the tables and small rules regenerated from /repo on every run (Gen/C14.v, written by
   translate/gen_c14.py from sequence/dna.py, sequence/translate.py, sequence/kmers.py, sequence/genes.py,
   genomic_data/genomic_sequence.py) are the ones the theorems of Props/C14.v are about (Model/C14.v).
   A changed dict entry, a dropped/added table assignment, a changed strand symbol or np.where operand order,
   a changed amino-acid string / base order / window size / hash weight makes one of these lemmas fail. *)
From Coq Require Import ZArith List Bool Lia String.
From BNP Require Import Base.Prims Model.C14 Proofs.C14 Proofs.C14_mask Gen.C14.
Import ListNotations.
Open Scope Z_scope.

Fixpoint sequence {A} (l : list (option A)) : option (list A) :=
  match l with
  | [] => Some []
  | x :: r => match x, sequence r with Some y, Some ys => Some (y :: ys) | _, _ => None end
  end.

(* --- sequence/dna.py: the complement dict and the two lookups built from it --- *)
Lemma b_complements : gen_complements = complements_pinned.
Proof. reflexivity. Qed.
(* the 128-entry ASCII table: zeros, then for every dict pair, in order, the assignments of the loop body *)
Lemma b_ascii_table :
  ascii_values_gen gen_ascii_size gen_ascii_fill (flat_map (fun p => gen_ascii_assign (fst p) (snd p)) gen_complements)
  = ascii_values complements.
Proof. vm_compute. reflexivity. Qed.
(* new_alphabet = [_complements[c] for c in alphabet] (KeyError = None) *)
Lemma b_new_alphabet : forall keys alphabet,
  sequence (gen_new_alphabet (fun c => assoc c keys) alphabet) = map_opt (fun c => assoc c keys) alphabet.
Proof.
  intros keys alphabet. unfold gen_new_alphabet. induction alphabet as [|c r IH]; [reflexivity|].
  cbn [map sequence map_opt]. rewrite IH. reflexivity.
Qed.
(* the lookup of the two alphabet encodings, from the regenerated dict and comprehension *)
Lemma b_alpha_values : forall a, In a [str "ACGT"; str "ACGTN"] ->
  match sequence (gen_new_alphabet (fun c => assoc c gen_complements) a) with
  | None => Err 4
  | Some na => alpha_encode a na
  end = alpha_values complements a.
Proof. intros a [<-|[<-|[]]]; vm_compute; reflexivity. Qed.
Lemma b_dna_flags :
  gen_alpha_lookup_same_encoding = true /\ gen_complement_rewraps_current_shape = true /\ gen_revcomp_reverses_rows = true.
Proof. repeat split; reflexivity. Qed.

(* --- the three strand-aware sites: strand symbol, operand order, slice bounds --- *)
Lemma b_stranded_site : forall keys wh minus ez ref ivs,
  model_stranded keys wh minus ez ref ivs
  = model_stranded_site keys wh (where_site minus) (fun a _ => a) (fun _ b => b) ez ref ivs.
Proof. intros keys wh [|] ez ref ivs; reflexivity. Qed.
Lemma b_stranded_dna : forall keys wh ez ref ivs,
  model_stranded keys wh true ez ref ivs
  = model_stranded_site keys wh gen_dna_where gen_dna_slice_start gen_dna_slice_stop ez ref ivs.
Proof. intros; reflexivity. Qed.
Lemma b_stranded_genomic : forall keys wh ez ref ivs,
  model_stranded keys wh false ez ref ivs
  = model_stranded_site keys wh gen_genomic_where (fun a _ => a) (fun _ b => b) ez ref ivs.
Proof. intros; reflexivity. Qed.
Lemma b_genes_where : gen_genes_where = where_site true.
Proof. reflexivity. Qed.
Lemma b_transcripts : forall keys wh ref txs,
  model_transcripts keys wh ref txs = model_extract keys wh gen_genes_where 2 ref tx_ext tx_strand txs.
Proof. intros; reflexivity. Qed.

(* --- the strand mask of the three sites (round 6: the repaired code) --- *)
(* dna.py broadcast_row_mask as regenerated: RaggedArray(<flat>, lengths) with lengths = sequences.lengths *)
Definition gen_row_mask (mask : list bool) (sequences : list (list Z)) : list (list bool) :=
  let lengths := map len sequences in split_lens (gen_row_mask_flat mask lengths) lengths.
(* the np.where a site reaches, from its regenerated mask form: the explicit row mask goes through npstructures' np.where on a
   full-size ragged mask ([where_flat]); the column form `(..)[:, np.newaxis]` through its conditional broadcast ([where_pinned]) *)
Definition site_where (m : bool * bool) : list bool -> list (list Z) -> list (list Z) -> result (list (list Z)) :=
  if fst m then where_call gen_row_mask (snd m) else where_pinned.
Lemma b_row_mask : gen_row_mask_shape_is_lengths = true
  /\ forall mask s, List.length mask = List.length s -> gen_row_mask mask s = row_mask_of mask s.
Proof. split; [reflexivity|]. intros mask s H. unfold gen_row_mask, gen_row_mask_flat. cbv zeta. apply row_mask_split, H. Qed.
(* all three sites hand over the explicit row mask ... *)
Lemma b_mask_forms : fst gen_dna_mask = true /\ fst gen_genomic_mask = true /\ fst gen_genes_mask = true.
Proof. repeat split; reflexivity. Qed.
(* ... and with it the extraction (any item type: intervals, transcripts) is the extraction with [where_rows], the np.where of
   the model the theorems in force are about: never an error, whatever the number of rows and bases *)
Lemma b_site_where : forall m, In m [gen_dna_mask; gen_genomic_mask; gen_genes_mask] ->
  forall (I : Type) keys site ez ref (ext : list Z -> I -> list Z) strand items,
    model_extract keys (site_where m) site ez ref ext strand items
    = model_extract keys where_rows site ez ref ext strand items.
Proof.
  intros m Hm I keys site ez ref ext strand items. apply extract_where_ext. intros mask x y Hl Hs.
  destruct Hm as [<-|[<-|[<-|[]]]]; unfold site_where; cbn [fst snd gen_dna_mask gen_genomic_mask gen_genes_mask];
    apply (where_call_fixed gen_row_mask (proj2 b_row_mask)); assumption.
Qed.
(* the three sites, each with its own regenerated mask form, symbol, operand order and slice bounds *)
Lemma b_stranded_dna_full : forall keys ez ref ivs,
  model_stranded keys where_rows true ez ref ivs
  = model_stranded_site keys (site_where gen_dna_mask) gen_dna_where gen_dna_slice_start gen_dna_slice_stop ez ref ivs.
Proof.
  intros. rewrite (b_stranded_dna keys where_rows), !stranded_site_extract.
  symmetry. apply b_site_where. cbn; tauto.
Qed.
Lemma b_stranded_genomic_full : forall keys ez ref ivs,
  model_stranded keys where_rows false ez ref ivs
  = model_stranded_site keys (site_where gen_genomic_mask) gen_genomic_where (fun a _ => a) (fun _ b => b) ez ref ivs.
Proof.
  intros. rewrite (b_stranded_genomic keys where_rows), !stranded_site_extract.
  symmetry. apply b_site_where. cbn; tauto.
Qed.
Lemma b_transcripts_full : forall keys ref txs,
  model_transcripts keys where_rows ref txs
  = model_extract keys (site_where gen_genes_mask) gen_genes_where 2 ref tx_ext tx_strand txs.
Proof. intros. rewrite (b_transcripts keys where_rows). symmetry. apply b_site_where. cbn; tauto. Qed.

(* --- sequence/translate.py + kmers.py: table, base order, window, reversed 3-mer hash, length rules --- *)
Lemma b_translate_tables :
  str gen_amino_acids = amino_acids /\ str gen_codon_alphabet = tcag
  /\ map (gen_kmer_weight (len (str gen_codon_alphabet))) (arange gen_window_size) = convolution
  /\ gen_table_is_code_points = true /\ gen_reshape_is_window_rows = true /\ gen_hash_is_dot = true.
Proof. repeat split; reflexivity. Qed.
Lemma b_codon_hash : forall w,
  codon_hash w = dot (if gen_window_reversed then rev w else w)
                     (map (gen_kmer_weight (len (str gen_codon_alphabet))) (arange gen_window_size)).
Proof. intros; reflexivity. Qed.
Lemma b_translate : forall rows,
  model_translate rows
  = model_translate_gen gen_window_size (str gen_codon_alphabet) (str gen_amino_acids) gen_kmer_weight
                        gen_window_reversed gen_length_check gen_out_length rows.
Proof. intros; reflexivity. Qed.

(* Bridge/C14.v — the tables and small rules regenerated from /repo on every run (Gen/C14.v, written by
   translate/gen_c14.py from sequence/dna.py, sequence/translate.py, sequence/kmers.py, sequence/genes.py,
   genomic_data/genomic_sequence.py) are the ones the theorems of Props/C14.v are about (Model/C14.v).
   A changed dict entry, a dropped/added table assignment, a changed strand symbol or np.where operand order,
   a changed amino-acid string / base order / window size / hash weight makes one of these lemmas fail. *)
From Coq Require Import ZArith List Bool Lia String.
From BNP Require Import Base.Prims Model.C14 Gen.C14.
Import ListNotations.
Open Scope Z_scope.

Fixpoint sequence {A} (l : list (option A)) : option (list A) :=
  match l with
  | [] => Some []
  | x :: r => match x, sequence r with Some y, Some ys => Some (y :: ys) | _, _ => None end
  end.

(* --- sequence/dna.py: the complement dict and the two lookups built from it --- *)
Lemma b_complements : gen_complements = complements_pinned.
Proof. reflexivity. Qed.
(* the 128-entry ASCII table: zeros, then for every dict pair, in order, the assignments of the loop body *)
Lemma b_ascii_table :
  ascii_values_gen gen_ascii_size gen_ascii_fill (flat_map (fun p => gen_ascii_assign (fst p) (snd p)) gen_complements)
  = ascii_values complements.
Proof. vm_compute. reflexivity. Qed.
(* new_alphabet = [_complements[c] for c in alphabet] (KeyError = None) *)
Lemma b_new_alphabet : forall keys alphabet,
  sequence (gen_new_alphabet (fun c => assoc c keys) alphabet) = map_opt (fun c => assoc c keys) alphabet.
Proof.
  intros keys alphabet. unfold gen_new_alphabet. induction alphabet as [|c r IH]; [reflexivity|].
  cbn [map sequence map_opt]. rewrite IH. reflexivity.
Qed.
(* the lookup of the two alphabet encodings, from the regenerated dict and comprehension *)
Lemma b_alpha_values : forall a, In a [str "ACGT"; str "ACGTN"] ->
  match sequence (gen_new_alphabet (fun c => assoc c gen_complements) a) with
  | None => Err 4
  | Some na => alpha_encode a na
  end = alpha_values complements a.
Proof. intros a [<-|[<-|[]]]; vm_compute; reflexivity. Qed.
Lemma b_dna_flags :
  gen_alpha_lookup_same_encoding = true /\ gen_complement_rewraps_current_shape = true /\ gen_revcomp_reverses_rows = true.
Proof. repeat split; reflexivity. Qed.

(* --- the three strand-aware sites: strand symbol, operand order, slice bounds --- *)
Lemma b_stranded_site : forall keys wh minus ez ref ivs,
  model_stranded keys wh minus ez ref ivs
  = model_stranded_site keys wh (where_site minus) (fun a _ => a) (fun _ b => b) ez ref ivs.
Proof. intros keys wh [|] ez ref ivs; reflexivity. Qed.
Lemma b_stranded_dna : forall keys wh ez ref ivs,
  model_stranded keys wh true ez ref ivs
  = model_stranded_site keys wh gen_dna_where gen_dna_slice_start gen_dna_slice_stop ez ref ivs.
Proof. intros; reflexivity. Qed.
Lemma b_stranded_genomic : forall keys wh ez ref ivs,
  model_stranded keys wh false ez ref ivs
  = model_stranded_site keys wh gen_genomic_where (fun a _ => a) (fun _ b => b) ez ref ivs.
Proof. intros; reflexivity. Qed.
Lemma b_genes_where : gen_genes_where = where_site true.
Proof. reflexivity. Qed.
Lemma b_transcripts : forall keys wh ref txs,
  model_transcripts keys wh ref txs = model_extract keys wh gen_genes_where 2 ref tx_ext tx_strand txs.
Proof. intros; reflexivity. Qed.

(* --- sequence/translate.py + kmers.py: table, base order, window, reversed 3-mer hash, length rules --- *)
Lemma b_translate_tables :
  str gen_amino_acids = amino_acids /\ str gen_codon_alphabet = tcag
  /\ map (gen_kmer_weight (len (str gen_codon_alphabet))) (arange gen_window_size) = convolution
  /\ gen_table_is_code_points = true /\ gen_reshape_is_window_rows = true /\ gen_hash_is_dot = true.
Proof. repeat split; reflexivity. Qed.
Lemma b_codon_hash : forall w,
  codon_hash w = dot (if gen_window_reversed then rev w else w)
                     (map (gen_kmer_weight (len (str gen_codon_alphabet))) (arange gen_window_size)).
Proof. intros; reflexivity. Qed.
Lemma b_translate : forall rows,
  model_translate rows
  = model_translate_gen gen_window_size (str gen_codon_alphabet) (str gen_amino_acids) gen_kmer_weight
                        gen_window_reversed gen_length_check gen_out_length rows.
Proof. intros; reflexivity. Qed.

(* Bridge/C16.v — the arithmetic regenerated from /repo's bam.py, alignments/cigar.py, alignments/__init__.py and
   io/parser.py (Gen/C16.v) is the arithmetic of Model/C16.v that the theorems of Props/C16.v are about.
   Re-checked on every run; a changed offset, comparison, shift, mask or formula in the source makes one of these
   lemmas fail.  Element-wise NumPy expressions are read per element (one record, one byte, one CIGAR word). *)
From Coq Require Import ZArith List Bool Lia String Ascii.
From BNP Require Import Base.Prims Model.C16 Gen.C16.
Import ListNotations.
Open Scope Z_scope.

(* the fixed cascade *)
Ltac gen_unfold := cbv beta delta [
  gen_fld_refid gen_fld_pos gen_fld_n_cigar gen_fld_flag gen_fld_l_seq gen_get_ints_index gen_l_read_name_index
  gen_mapq_index gen_read_name_start gen_cigar_start gen_cigar_bytes gen_sequence_start gen_quality_start
  gen_name_lo gen_name_hi gen_cigar_lo gen_cigar_hi gen_seq_lo gen_seq_hi gen_qual_lo gen_qual_hi
  gen_cigar_word_bytes gen_cigar_n_words gen_nibbles_per_byte gen_nibble gen_seq_row_len gen_seq_keep
  gen_find_next gen_block_size_lo gen_block_size_hi gen_first_start gen_in_chunk gen_bib_stop gen_bib_strand
  gen_cigar_op gen_cigar_len gen_ref_term gen_a2i_strand_bits gen_a2i_strand gen_a2i_stop gen_is_finished] zeta.
Ltac model_unfold := cbv beta delta [
  read_field m_refid m_pos m_n_cigar m_flag m_l_seq m_l_read_name m_mapq m_name_start m_cigar_start m_seq_start
  m_qual_start m_name m_qual m_seq m_cigar m_cigar_words get_uint find_next in_chunk is_finished
  current repaired v_cigar_bytes interval_at i_stop i_strand m_reflen] zeta iota.
Ltac bits := rewrite ?Z.shiftr_0_r; rewrite ?Z.shiftr_div_pow2 by lia;
  change 15 with (Z.ones 4); rewrite ?Z.land_ones by lia.
Ltac bridge := intros; gen_unfold; model_unfold;
  first [reflexivity | ring | lia
        | (do 2 f_equal; first [reflexivity | ring | lia])
        | (bits; first [reflexivity | ring | lia])].

(* ---- fixed-offset fields: the (offset, width, signedness) the source passes to _get_ints *)
Lemma br_fld_refid : forall d s, m_refid d s = read_field gen_fld_refid d s. Proof. bridge. Qed.
Lemma br_fld_pos : forall d s, m_pos d s = read_field gen_fld_pos d s. Proof. bridge. Qed.
Lemma br_fld_n_cigar : forall d s, m_n_cigar d s = read_field gen_fld_n_cigar d s. Proof. bridge. Qed.
Lemma br_fld_flag : forall d s, m_flag d s = read_field gen_fld_flag d s. Proof. bridge. Qed.
Lemma br_fld_l_seq : forall d s, m_l_seq d s = read_field gen_fld_l_seq d s. Proof. bridge. Qed.
Lemma br_raw_fields : gen_pos_is_raw = true /\ gen_flag_is_raw = true /\ gen_l_seq_is_raw = true /\ gen_raw_buffer_shape = true.
Proof. repeat split. Qed.
Lemma br_get_ints : forall d s off n,
  get_uint d s off n = from_le (slice (gen_get_ints_index s off 0) (gen_get_ints_index s off n) d).
Proof. bridge. Qed.
Lemma br_l_read_name : forall d s, m_l_read_name d s = nthZ d (gen_l_read_name_index s). Proof. bridge. Qed.
Lemma br_mapq : forall d s, m_mapq d s = nthZ d (gen_mapq_index s). Proof. bridge. Qed.

(* ---- derived offsets *)
Lemma br_read_name_start : forall s, m_name_start s = gen_read_name_start s. Proof. bridge. Qed.
Lemma br_cigar_start : forall d s, m_cigar_start d s = gen_cigar_start (gen_read_name_start s) (m_l_read_name d s).
Proof. bridge. Qed.
Lemma br_cigar_bytes : forall n, v_cigar_bytes current n = gen_cigar_bytes n. Proof. bridge. Qed.
Lemma br_sequence_start : forall d s,
  m_seq_start current d s = gen_sequence_start (m_cigar_start d s) (gen_cigar_bytes (m_n_cigar d s)).
Proof. bridge. Qed.
Lemma br_quality_start : forall d s,
  m_qual_start current d s = gen_quality_start (m_seq_start current d s) (m_l_seq d s).
Proof. bridge. Qed.

(* ---- slices of the variable-length fields *)
Section Slices.
  Variables (d : list Z) (s : Z).
  Let A := m_name_start s. Let B := m_cigar_start d s. Let C := m_seq_start current d s.
  Let D := m_qual_start current d s. Let L := m_l_seq d s.
  Lemma br_name_slice : m_name d s = slice (gen_name_lo A B C D L) (gen_name_hi A B C D L) d.
  Proof. reflexivity. Qed.
  Lemma br_cigar_slice : m_cigar_words current d s
    = map from_le (chunks_of (Z.to_nat gen_cigar_word_bytes) (slice (gen_cigar_lo A B C D L) (gen_cigar_hi A B C D L) d)).
  Proof. reflexivity. Qed.
  Lemma br_seq_slice : m_seq current d s
    = firstn (Z.to_nat (gen_seq_keep L)) (nibbles (slice (gen_seq_lo A B C D L) (gen_seq_hi A B C D L) d)).
  Proof. reflexivity. Qed.
  Lemma br_qual_slice : m_qual current d s = slice (gen_qual_lo A B C D L) (gen_qual_hi A B C D L) d.
  Proof. reflexivity. Qed.
End Slices.
Lemma br_cigar_n_words : forall n, gen_cigar_n_words n = n / gen_cigar_word_bytes. Proof. bridge. Qed.

(* ---- nibble arithmetic: two nibbles per byte, high one first, masked with 15; row length *)
Lemma br_nibbles : forall b, nibbles [b] = [gen_nibble b 0; gen_nibble b 1] /\ gen_nibbles_per_byte = 2.
Proof.
  intros; gen_unfold; split; [|reflexivity]. cbv beta delta [nibbles flat_map app] iota.
  change (4 * (2 - 1 - 0)) with 4. change (4 * (2 - 1 - 1)) with 0. bits. reflexivity.
Qed.
Lemma br_seq_row_len : forall s l, gen_seq_row_len l = gen_nibbles_per_byte * (gen_quality_start s l - s).
Proof. bridge. Qed.

(* ---- record boundaries *)
Lemma br_find_next : forall chunk start,
  find_next chunk start = gen_find_next start (from_le (slice (gen_block_size_lo start) (gen_block_size_hi start) chunk)).
Proof. bridge. Qed.
Lemma br_in_chunk : forall start n, in_chunk start n = gen_in_chunk start n. Proof. bridge. Qed.
Lemma br_first_start : forall chunk, find_starts chunk = find_starts_fuel (S (S (List.length chunk))) chunk gen_first_start.
Proof. reflexivity. Qed.
Lemma br_is_finished : forall n k, is_finished n k = gen_is_finished n k. Proof. bridge. Qed.

(* ---- CIGAR word split and reference length *)
Lemma br_cigar_split : forall w, (w mod 16, w / 16) = (gen_cigar_op w, gen_cigar_len w).
Proof. intros; gen_unfold. bits. reflexivity. Qed.
Lemma br_cigar : forall d s,
  m_cigar current d s = map (fun w => (gen_cigar_op w, gen_cigar_len w)) (m_cigar_words current d s).
Proof. intros. unfold m_cigar. apply map_ext. intros w. apply br_cigar_split. Qed.
Fixpoint codes (s : string) : list Z :=
  match s with EmptyString => [] | String a r => Z.of_nat (nat_of_ascii a) :: codes r end.
Lemma br_consuming : map (fun c => index_of c cigar_letters) (codes gen_consuming) = m_consuming.
Proof. reflexivity. Qed.
Lemma br_ref_term : forall cg,
  m_reflen cg = sumZ (map (fun c => gen_ref_term (if existsb (Z.eqb (fst c)) m_consuming then 1 else 0) (snd c)) cg).
Proof. reflexivity. Qed.

(* ---- reference interval: both routes *)
Lemma br_interval : forall names d s,
  let iv := interval_at current names d s in
  i_stop iv = gen_bib_stop (m_pos d s) (m_reflen (m_cigar current d s))
  /\ i_stop iv = gen_a2i_stop (m_pos d s) (m_reflen (m_cigar current d s))
  /\ i_strand iv = gen_bib_strand (m_flag d s)
  /\ i_strand iv = gen_a2i_strand (gen_a2i_strand_bits (m_flag d s)).
Proof. intros. repeat split. Qed.

(* Bridge/C03.v — the arithmetic, constants and conditions regenerated from /repo's writers on this run (Gen/C03.v,
   written by translate/run.py via translate/gen_c03.py) are the ones the model functions of Model/C03.v are built
   from (the named helpers m_xxx), hence the ones the theorems of Props/C03.v are about.  Every lemma is proved by ONE fixed
   cascade after unfolding; a changed offset, comparison, constant, stride or condition in the source makes one fail. *)
From Coq Require Import ZArith List Bool Lia String.
From BNP Require Import Base.Prims Model.C03 Gen.C03.
Import ListNotations.
Open Scope Z_scope.

Ltac bridge := intros; cbv beta delta [
  gen_fasta_n_lines gen_fasta_last_length gen_fasta_total gen_fasta_fill gen_fasta_entry_step gen_fasta_first_start
  gen_fasta_has_lines gen_fasta_last_index gen_fasta_last_value gen_fasta_hdr_index gen_fasta_hdr_value
  gen_fasta_assign_order gen_fasta_body_len gen_join_cell_len gen_join_stride_start gen_join_stride_step
  gen_join_nl_start gen_join_nl_step gen_join_newline gen_delimiter gen_olb_line_len gen_olb_stride_step
  gen_olb_body_start gen_olb_hdr_row_start gen_olb_hdr_col gen_olb_newline gen_fastq_offsets gen_fastq_n_lines
  gen_fastq_header gen_fastq_plus gen_fastq_plus_position gen_vcf_pos_eager gen_vcf_pos_lazy gen_vcf_pos_field
  gen_write_emits_header gen_stream_skips_empty gen_append_flag_a gen_append_flag_w
  gen_sam_from_data_joins_fields gen_sam_tags_start gen_sam_tags_step gen_sam_no_tags gen_sam_cell_end gen_sam_drop_index
  m_sam_eager_joins_fields m_sam_no_tags m_sam_cell_end m_sam_drop_index
  m_fasta_n_lines m_fasta_last_length m_fasta_total m_fasta_fill m_fasta_first_start m_fasta_entry_step
  m_fasta_has_lines m_fasta_last_index m_fasta_last_value m_fasta_hdr_value m_fasta_body_len
  m_fasta_last_before_header m_line_len m_join_nl_start m_sep m_newline m_fastq_offsets m_fastq_n_lines
  m_fastq_header m_fastq_plus m_fastq_plus_position m_vcf_pos_delta m_emits_header m_stream_skips_empty
  mode_is_ab_fixed] zeta;
  first [reflexivity | ring | lia].

(* ---- multiline_buffer.MultiLineFastaBuffer.from_data ---- *)
Lemma b_fasta_n_lines : forall L w, gen_fasta_n_lines L w = m_fasta_n_lines L w.
Proof. bridge. Qed.
Lemma b_fasta_last_length : forall L w, gen_fasta_last_length L w = m_fasta_last_length L w.
Proof. bridge. Qed.
Lemma b_fasta_total : forall s c, gen_fasta_total s c = m_fasta_total s c.
Proof. bridge. Qed.
Lemma b_fasta_fill : forall w, gen_fasta_fill w = m_fasta_fill w.
Proof. bridge. Qed.
Lemma b_fasta_entry_step : forall n, gen_fasta_entry_step n = m_fasta_entry_step n.
Proof. bridge. Qed.
Lemma b_fasta_first_start : gen_fasta_first_start = m_fasta_first_start.
Proof. bridge. Qed.
Lemma b_fasta_has_lines : forall n, gen_fasta_has_lines n = m_fasta_has_lines n.
Proof. bridge. Qed.
Lemma b_fasta_last_index : forall s, gen_fasta_last_index s = m_fasta_last_index s.
Proof. bridge. Qed.
Lemma b_fasta_last_value : forall l, gen_fasta_last_value l = m_fasta_last_value l.
Proof. bridge. Qed.
Lemma b_fasta_hdr_index : forall s, gen_fasta_hdr_index s = s.
Proof. bridge. Qed.
Lemma b_fasta_hdr_value : forall n, gen_fasta_hdr_value n = m_fasta_hdr_value n.
Proof. bridge. Qed.
Lemma b_fasta_assign_order : gen_fasta_assign_order = m_fasta_last_before_header.
Proof. bridge. Qed.
Lemma b_fasta_body_len : forall l, gen_fasta_body_len l = m_fasta_body_len l.
Proof. bridge. Qed.

(* ---- dump_csv.join_columns, DelimitedBuffer.DELIMITER ---- *)
Lemma b_join_cell_len : forall c, gen_join_cell_len c = m_line_len c 0.
Proof. bridge. Qed.
Lemma b_join_stride_start : forall i n, gen_join_stride_start i n = i.
Proof. bridge. Qed.
Lemma b_join_stride_step : forall i n, gen_join_stride_step i n = n.
Proof. bridge. Qed.
Lemma b_join_nl_start : forall n : nat, (1 <= n)%nat -> gen_join_nl_start (Z.of_nat n) = Z.of_nat (m_join_nl_start n).
Proof. bridge. Qed.
Lemma b_join_nl_step : forall n, gen_join_nl_step n = n.
Proof. bridge. Qed.
Lemma b_join_newline : gen_join_newline = m_newline.
Proof. bridge. Qed.
Lemma b_delimiter : gen_delimiter = m_sep.
Proof. bridge. Qed.

(* ---- one_line_buffer.OneLineBuffer.join_fields ---- *)
Lemma b_olb_line_len : forall f o, gen_olb_line_len f o = m_line_len f o.
Proof. bridge. Qed.
Lemma b_olb_stride_step : forall n, gen_olb_stride_step n = n.
Proof. bridge. Qed.
Lemma b_olb_body_start : forall o, gen_olb_body_start o = o.
Proof. bridge. Qed.
Lemma b_olb_hdr_row_start : gen_olb_hdr_row_start = 0.
Proof. bridge. Qed.
Lemma b_olb_hdr_col : gen_olb_hdr_col = 0.
Proof. bridge. Qed.
Lemma b_olb_newline : gen_olb_newline = m_newline.
Proof. bridge. Qed.

(* ---- fastq_buffer.FastQBuffer ---- *)
Lemma b_fastq_offsets : gen_fastq_offsets = map Z.of_nat m_fastq_offsets.
Proof. bridge. Qed.
Lemma b_fastq_n_lines : gen_fastq_n_lines = Z.of_nat m_fastq_n_lines.
Proof. bridge. Qed.
Lemma b_fastq_header : gen_fastq_header = m_fastq_header.
Proof. bridge. Qed.
Lemma b_fastq_plus : gen_fastq_plus = m_fastq_plus.
Proof. bridge. Qed.
Lemma b_fastq_plus_position : gen_fastq_plus_position = Z.of_nat m_fastq_plus_position.
Proof. bridge. Qed.
(* the '+' line sits at that position among the lines of a record: fields[:k] + [plus] + fields[k:] *)
Lemma b_fastq_texts : forall n s q,
  fastq_texts [n; s; q]
  = firstn (Z.to_nat gen_fastq_plus_position) [col_text n; col_text s; col_text q] ++ [[gen_fastq_plus]]
    ++ skipn (Z.to_nat gen_fastq_plus_position) [col_text n; col_text s; col_text q].
Proof. bridge. Qed.

(* ---- vcf_buffers.VCFBuffer ---- *)
Lemma b_vcf_pos_eager : forall p, gen_vcf_pos_eager p = p + m_vcf_pos_delta.
Proof. bridge. Qed.
Lemma b_vcf_pos_lazy : forall p, gen_vcf_pos_lazy p = p + m_vcf_pos_delta.
Proof. bridge. Qed.
Lemma b_vcf_pos_field : gen_vcf_pos_field = "position"%string.
Proof. bridge. Qed.

(* ---- parser.NpBufferedWriter.write / __init__, files._get_buffered_file ---- *)
Lemma b_write_emits_header : forall hh ab hw, gen_write_emits_header hh ab hw = m_emits_header hh ab hw.
Proof. bridge. Qed.
Lemma b_stream_skips_empty : gen_stream_skips_empty = m_stream_skips_empty.
Proof. bridge. Qed.
Lemma b_append_flag_a : forall gz, gen_append_flag_a = mode_is_ab_fixed true gz.
Proof. bridge. Qed.
Lemma b_append_flag_w : forall gz, gen_append_flag_w = mode_is_ab_fixed false gz.
Proof. bridge. Qed.

(* ---- buffers/sam.SAMBuffer.from_data / join_fields ---- *)
Lemma b_sam_from_data : gen_sam_from_data_joins_fields = m_sam_eager_joins_fields.
Proof. bridge. Qed.
Lemma b_sam_tags_start : forall n : nat, (1 <= n)%nat -> gen_sam_tags_start (Z.of_nat n) = Z.of_nat (m_join_nl_start n).
Proof. bridge. Qed.
Lemma b_sam_tags_step : forall n, gen_sam_tags_step n = n.
Proof. bridge. Qed.
Lemma b_sam_no_tags : forall l, gen_sam_no_tags l = m_sam_no_tags l.
Proof. bridge. Qed.
Lemma b_sam_cell_end : forall c, gen_sam_cell_end c = m_sam_cell_end c.
Proof. bridge. Qed.
Lemma b_sam_drop_index : forall r n, gen_sam_drop_index r n = m_sam_drop_index r n.
Proof. bridge. Qed.

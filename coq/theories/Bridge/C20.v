(* Bridge/C20.v — the effect programs regenerated from the CURRENT source on this run (Gen/C20.v, written by
   translate/gen_c20.py with the fail-closed extractor of harness/props/c20.py) are accepted by the checker of
   Model/C20.v, hence — by the soundness theorem proved once for all programs and stores (Proofs/C20.v) — every
   run-time instance of every one of them leaves its inputs unchanged.
   `gen_sites_safe` is the per-run proof obligation: an in-place write that can reach an argument at any
   registered site (a dropped .copy(), an out= on an input column, a shared dictionary ...) makes it false, a site
   that could not be extracted makes Gen/C20.v ill-typed; a harmless edit of the source changes Gen/C20.v and
   nothing else. *)
From Coq Require Import ZArith List Bool Arith Lia.
From BNP Require Import Base.Prims Model.C20 Proofs.C20 Proofs.C20_link Proofs.C20_chain Gen.C20 Corr.C20.
Import ListNotations.
Open Scope nat_scope.

(* the generated table lists exactly the registered sites (an emptied table would make the next lemma vacuous) *)
Lemma gen_sites_complete : map fst gen_site_table = site_ids.
Proof. vm_compute. reflexivity. Qed.

(* reflection: the checker accepts every generated program *)
Lemma gen_sites_safe :
  forallb (fun e => safe_prog (fst (snd e)) (snd (snd e))) gen_site_table = true.
Proof. vm_compute. reflexivity. Qed.

Lemma gen_site_safe : forall sid np site, In (sid, (np, site)) gen_site_table -> safe_prog np site = true.
Proof.
  intros sid np site Hin.
  exact (proj1 (forallb_forall _ _) gen_sites_safe (sid, (np, site)) Hin).
Qed.

(* the source tie: every run-time instance (any data, any branch taken, any view operation that happened to copy)
   of the program of every registered site of the current source leaves every pre-existing buffer and the logical
   content of every argument unchanged *)
Theorem gen_sites_sound : forall sid np site p s,
  In (sid, (np, site)) gen_site_table ->
  shape p = shape site -> wf_init np s -> unchanged np s (run p s).
Proof.
  intros sid np site p s Hin Hsh Hwf.
  eapply site_instance_sound; eauto. eapply gen_site_safe; eauto.
Qed.

(* round 6: the sites registered for the in-place writes OUTSIDE the anchored files (package-wide write gate): each of
   them has a program generated from the current source, and every run-time instance of it leaves its inputs unchanged *)
Lemma round6_ids_registered : forallb (fun k => existsb (Z.eqb k) site_ids) round6_site_ids = true.
Proof. vm_compute. reflexivity. Qed.

Theorem round6_sites_sound : forall sid,
  In sid round6_site_ids ->
  exists np site, In (sid, (np, site)) gen_site_table /\ forall p s, shape p = shape site -> wf_init np s -> unchanged np s (run p s).
Proof.
  intros sid Hin.
  pose proof (proj1 (forallb_forall _ _) round6_ids_registered sid Hin) as He.
  apply existsb_exists in He. destruct He as [k [Hk Hek]]. apply Z.eqb_eq in Hek. subst k.
  rewrite <- gen_sites_complete in Hk. apply in_map_iff in Hk.
  destruct Hk as [[sid' [np site]] [Hf Hk]]. simpl in Hf. subst sid'.
  exists np, site. split; auto.
  intros p s Hsh Hwf. eapply gen_sites_sound; eauto.
Qed.

(* a chain of calls of registered sites of the current source (same number of arguments), in any order and any number,
   each starting from what the previous ones left: the inputs of the first call are unchanged at the end *)
Theorem gen_sites_chain_sound : forall np ps s,
  (forall p, In p ps -> exists sid site, In (sid, (np, site)) gen_site_table /\ shape p = shape site) ->
  wf_init np s -> unchanged np s (run_calls np ps s).
Proof.
  intros np ps s Hall Hwf. apply safe_calls_chain; auto.
  apply forallb_forall. intros p Hp. destruct (Hall p Hp) as [sid [site [Hin Hsh]]].
  rewrite (safe_prog_shape np p site Hsh). eapply gen_site_safe; eauto.
Qed.

(* ---------------------------------------------------------------- model agrees => property holds *)
(* for call cases of the genotype encodings (site 14) the model is the executable `genotype_prog(_fixed)`; all other
   cases: agreement with the model implies the property on that case.  For `site` cases this is the translator tie:
   the harness's extraction equals the generated program, and the generated programs are safe. *)
Theorem model_implies_spec_partial : forall c,
  (Z.eqb (k_kind c) 0 = true -> k_site c <> 14%Z) -> model_ok c = true -> spec_ok c = true.
Proof.
  intros c Hs H. unfold model_ok in H. unfold spec_ok.
  destruct (Z.eqb (k_kind c) 0) eqn:E0.
  - specialize (Hs eq_refl).
    unfold model_call_ok in H. rewrite model_prog_sel_nil in H by auto. simpl in H.
    rewrite firstn_all in H. rewrite zll_eqb_refl in H. simpl in H.
    unfold observed_unchanged.
    destruct (zll_eqb (k_before c) (k_after c)); simpl in *; try discriminate.
    destruct (zlist_eqb (k_log_before c) (k_log_after c)); simpl in *; try discriminate. exact H.
  - destruct (Z.eqb (k_kind c) 1) eqn:E1; auto.
    destruct (Z.eqb (k_kind c) 2) eqn:E2; auto.
    apply andb_true_iff in H. destruct H as [H1 H2]. apply prog_eqb_eq in H1. rewrite H1. exact H2.
Qed.

(* history: with the model of the unrepaired code (fix1_applied = false) the exclusion was needed — a genotype
   encoding call on which model and implementation agree and the property fails *)
Theorem model_implies_spec_refuted :
  fix1_applied = false ->
  exists c, k_site c = 14%Z /\ model_ok c = true /\ spec_ok c = false.
Proof.
  intros Hf.
  exists {| k_kind := 0; k_site := 14; k_cow := false; k_target := 0;
            k_before := [[48; 47; 49; 10]%Z]; k_after := [[48; 47; 49; 9]%Z];
            k_log_before := [1%Z]; k_log_after := [2%Z]; k_res1 := []; k_res2 := [];
            k_w_ref := []; k_w_got := []; k_np := 0; k_prog := []; k_prog2 := []; k_flags := [] |}.
  split; [reflexivity|]. split.
  - unfold model_ok, model_call_ok, model_prog_sel. rewrite Hf. vm_compute. reflexivity.
  - vm_compute. reflexivity.
Qed.

(* ---------------------------------------------------------------- the full link (repaired model) *)
Lemma firstn_len_app : forall A (l m : list A), firstn (length l) (l ++ m) = l.
Proof. intros. rewrite firstn_app. rewrite Nat.sub_diag. simpl. rewrite firstn_all. apply app_nil_r. Qed.

(* the repaired genotype-encoding model: flatten; view.  Whatever the layout, the observed buffers and the
   argument's content are those of the initial state *)
Lemma genotype_fixed_run : forall bufs tgt cow,
  let s0 := call_init bufs tgt cow in
  let s1 := run (genotype_prog_fixed (nth tgt bufs [])) s0 in
  firstn (length bufs) (s_blocks s1) = bufs /\ content s1 (get_reg s1 0) = content s0 (get_reg s0 0).
Proof.
  intros bufs tgt cow. destruct cow; unfold run, genotype_prog_fixed; cbn [fold_left step];
    unfold flatten, content, blk, get_reg, call_init; cbn [s_regs s_blocks r_cow r_blocks nth set_nth map length seq flat_map app].
  - split.
    + apply firstn_len_app.
    + f_equal. rewrite app_nth2 by lia. rewrite Nat.sub_diag. reflexivity.
  - split; [apply firstn_all|reflexivity].
Qed.

Theorem model_implies_spec_call14 : fix1_applied = true -> forall c,
  Z.eqb (k_kind c) 0 = true -> k_site c = 14%Z -> model_ok c = true -> spec_ok c = true.
Proof.
  intros Hf c E0 Hs H. unfold model_ok in H. unfold spec_ok. rewrite E0 in *.
  unfold model_call_ok in H. cbv zeta in H. unfold model_prog_sel in H. rewrite Hf in H.
  rewrite Hs in H.
  replace (model_prog_fixed 14 (nth (Z.to_nat (k_target c)) (k_before c) []))
    with (genotype_prog_fixed (nth (Z.to_nat (k_target c)) (k_before c) [])) in H by reflexivity.
  destruct (genotype_fixed_run (k_before c) (Z.to_nat (k_target c)) (k_cow c)) as [H1 H2].
  cbv zeta in H1, H2.
  apply andb_true_iff in H. destruct H as [H Hr]. apply andb_true_iff in H. destruct H as [Ha Hb].
  assert (Ha' : zll_eqb (k_before c) (k_after c) = true) by (rewrite <- H1; exact Ha).
  assert (Hl : zlist_eqb (k_log_before c) (k_log_after c) = true).
  { match type of H2 with ?y = ?z =>
      assert (Hyz : zll_eqb y z = true) by (rewrite H2; apply zll_eqb_refl) end.
    apply eqb_prop in Hb. rewrite <- Hb. exact Hyz. }
  unfold observed_unchanged. rewrite Ha', Hr, Hl. reflexivity.
Qed.

Theorem model_implies_spec_full : forall c, model_ok c = true -> spec_ok c = true.
Proof.
  intros c H. destruct (Z.eqb (k_kind c) 0) eqn:E0.
  - destruct (Z.eq_dec (k_site c) 14) as [Hs|Hs].
    + apply model_implies_spec_call14; auto.
    + apply model_implies_spec_partial; auto.
  - apply model_implies_spec_partial; auto. intros E. congruence.
Qed.

(* Bridge/C06.v — the kernels regenerated from /repo (Gen/C06.v: alphabet_encoding.py __init__/_initialize/_encode/
   _decode, the re-targeting rule of encoded_array.as_encoded_array, the numeric offset encodings of
   encodings/__init__.py) are the definitions the theorems of Props/C06.v are about (Model/C06.v, repaired
   variants lower_fixed / RFixed).  Re-checked on every run; a change of the table construction, a comparison,
   a prefix length or an offset in the source makes one of these fail. *)
From Coq Require Import ZArith List Bool Lia.
From BNP Require Import Base.Prims Model.C06 Gen.C06.
Import ListNotations.
Open Scope Z_scope.

(* the reading of NumPy integer-array assignment used by the generated file is the model's scatter *)
Lemma np_set_set_nth i v l : np_set i v l = set_nth i v l.
Proof. reflexivity. Qed.     (* the two fixpoints are the same term *)
Lemma np_setitem_scatter idx : forall vals tbl, np_setitem tbl idx vals = scatter tbl idx vals.
Proof. reflexivity. Qed.

Ltac bridge := intros; cbv beta delta [gen_raw_alphabet gen_alphabet_size gen_build_lookup gen_encode_elem gen_encode_reject
  gen_encode_invalid_code gen_encode_offset_pick gen_decode_elem gen_retarget_m gen_retarget_prefix_src
  gen_retarget_prefix_dst gen_retarget_fits gen_numeric_encode gen_numeric_decode gen_digit_min_code
  gen_quality_min_code gen_cigar_min_code
  alphabet_of build_lookup lower_fixed invalid_code m_retarget_m m_prefix_len m_fits num_encode num_decode
  digit_min_code quality_min_code cigar_min_code] zeta;
  rewrite ?map_id, ?np_setitem_scatter;
  first [reflexivity | apply Z.geb_leb | ring | lia].

Lemma b_raw_alphabet : forall raw, gen_raw_alphabet raw = alphabet_of raw.
Proof. bridge. Qed.
Lemma b_alphabet_size : forall A, gen_alphabet_size A = len A.
Proof. bridge. Qed.
Lemma b_build_lookup : forall A, gen_build_lookup A = build_lookup lower_fixed A.
Proof. bridge. Qed.
Lemma b_encode_elem : forall tbl b, gen_encode_elem tbl b = nthZ tbl b.
Proof. bridge. Qed.
Lemma b_encode_reject : forall r n, gen_encode_reject r n = (n <=? r).
Proof. bridge. Qed.
Lemma b_encode_invalid_code : gen_encode_invalid_code = invalid_code.
Proof. bridge. Qed.
Lemma b_encode_offset_pick : gen_encode_offset_pick = 0.
Proof. bridge. Qed.
Lemma b_decode_elem : forall A k, gen_decode_elem A k = nthZ A k.
Proof. bridge. Qed.
Lemma b_retarget_m : forall size mx, gen_retarget_m size mx = m_retarget_m size mx.
Proof. bridge. Qed.
Lemma b_retarget_prefix_src : forall m, gen_retarget_prefix_src m = m_prefix_len m.
Proof. bridge. Qed.
Lemma b_retarget_prefix_dst : forall m, gen_retarget_prefix_dst m = m_prefix_len m.
Proof. bridge. Qed.
Lemma b_retarget_fits : forall m n, gen_retarget_fits m n = m_fits m n.
Proof. bridge. Qed.
Lemma b_numeric_encode : forall b mc, gen_numeric_encode b mc = num_encode b mc.
Proof. bridge. Qed.
Lemma b_numeric_decode : forall d mc, gen_numeric_decode d mc = num_decode d mc.
Proof. bridge. Qed.
Lemma b_min_codes : gen_digit_min_code = digit_min_code /\ gen_quality_min_code = quality_min_code
                    /\ gen_cigar_min_code = cigar_min_code.
Proof. repeat split; bridge. Qed.

(* the pieces assembled: the model's encoder and re-target rule written with the generated kernels only *)
Lemma encode_flat_from_gen : forall A s,
  encode_flat lower_fixed A s =
    (let ret := map (gen_encode_elem (gen_build_lookup A)) s in
     if existsb (fun r => gen_encode_reject r (gen_alphabet_size A)) ret then
       match nth_error (positions gen_encode_invalid_code ret) (Z.to_nat gen_encode_offset_pick) with
       | Some o => EncErr o | None => Crash end
     else Ok ret).
Proof.
  intros A s. unfold encode_flat. cbv zeta. rewrite b_build_lookup, b_encode_invalid_code.
  change (gen_encode_elem (build_lookup lower_fixed A)) with (nthZ (build_lookup lower_fixed A)).
  replace (existsb (fun r => gen_encode_reject r (gen_alphabet_size A)) (map (nthZ (build_lookup lower_fixed A)) s))
    with (existsb (fun r => len A <=? r) (map (nthZ (build_lookup lower_fixed A)) s)).
  - destruct (positions invalid_code (map (nthZ (build_lookup lower_fixed A)) s)); reflexivity.
  - induction (map (nthZ (build_lookup lower_fixed A)) s) as [|r l IH]. reflexivity.
    cbn [existsb]. rewrite <- IH. rewrite (b_encode_reject r (gen_alphabet_size A)). rewrite (b_alphabet_size A). reflexivity.
Qed.

(* Bridge/C10.v — the arithmetic regenerated from /repo on this run (Gen/C10.v, written by translate/run.py via
   translate/gen_c10.py) is the arithmetic of Model/C10.v:
     (a) bridge lemmas  b_* : Gen.f = named helper m_* of the model (fixed cascade after unfolding);
     (b) link lemmas    l_* : each model function the theorems are about is those helpers put together.
   A changed offset, comparison, clamp, flank or shift in the source makes (a) fail; a changed side of
   np.searchsorted changes the string handed to m_searchsorted and makes b_to_local_idx / b_tli_idx fail. *)
From Coq Require Import ZArith List Bool Lia String.
From BNP Require Import Base.Prims Model.C10 Gen.C10.
Import ListNotations.
Open Scope Z_scope.

(* np.searchsorted as the model has it: only side="right" is modelled *)
Definition m_searchsorted (side : string) (a : list Z) (v : Z) : Z :=
  if String.eqb side "right" then searchsorted_right a v else -1.

Ltac bools :=
  repeat match goal with b : bool |- _ => destruct b end;
  rewrite ?Z.geb_leb, ?Z.gtb_ltb;
  repeat match goal with
         | |- context [Z.leb ?a ?b] => destruct (Z.leb_spec a b)
         | |- context [Z.ltb ?a ?b] => destruct (Z.ltb_spec a b)
         end;
  cbn; first [reflexivity | lia].
Ltac bridge := intros; cbv beta delta [
  gen_from_local_reject gen_from_local_value gen_to_local_idx gen_to_local_pos gen_tli_idx gen_tli_start gen_tli_stop
  gen_tli_assert gen_se_check gen_se_start gen_se_stop gen_win_flank_l gen_win_flank_r gen_win_size_l gen_win_size_r
  gen_win_start gen_win_stop gen_clip_start gen_clip_stop gen_geo_clip_start gen_geo_clip_stop gen_extend_start
  gen_extend_stop gen_loc_unstranded gen_loc_stranded gen_loc_center gen_merged_assert gen_merged_fwd_start
  gen_merged_fwd_stop gen_merged_shift gen_merged_back_start gen_merged_back_stop gen_geo_merged_fwd_start
  gen_geo_merged_fwd_stop gen_geo_merged_shift gen_geo_merged_back_start gen_geo_merged_back_stop
  m_from_local_reject m_from_local_value m_to_local_idx m_to_local_pos m_entry_check m_global m_stop_fits
  m_clip_start m_clip_stop m_geo_clip_start m_geo_clip_stop m_extend_start m_extend_stop m_flank_l m_flank_r
  m_wsize_l m_wsize_r m_win_start m_win_stop m_loc_unstranded m_loc_stranded m_loc_center m_shift m_searchsorted
  E_BOUNDS E_ASSERT] zeta;
  first [reflexivity | ring | lia | bools].

(* ------------------------------------------------------------------ (a) generated = model helper *)
(* GlobalOffset.from_local_coordinates *)
Lemma b_from_local_reject : forall size p, gen_from_local_reject size p = m_from_local_reject size p.
Proof. bridge. Qed.
Lemma b_from_local_value : forall o p, gen_from_local_value o p = m_from_local_value o p.
Proof. bridge. Qed.
(* GlobalOffset.to_local_coordinates / to_local_interval *)
Lemma b_to_local_idx : forall a g, gen_to_local_idx m_searchsorted a g = m_to_local_idx (searchsorted_right a g).
Proof. bridge. Qed.
Lemma b_to_local_pos : forall o g, gen_to_local_pos o g = m_to_local_pos o g.
Proof. bridge. Qed.
Lemma b_tli_idx : forall a g, gen_tli_idx m_searchsorted a g = m_to_local_idx (searchsorted_right a g).
Proof. bridge. Qed.
Lemma b_tli_start : forall o g, gen_tli_start o g = m_to_local_pos o g.
Proof. bridge. Qed.
Lemma b_tli_stop : forall o g, gen_tli_stop o g = m_to_local_pos o g.
Proof. bridge. Qed.
Lemma b_tli_assert : forall o size g, gen_tli_assert o size g = m_stop_fits size (m_to_local_pos o g).
Proof. bridge. Qed.
(* GlobalOffset.start_ends_from_intervals (do_clip=False): the source checks negative starts *)
Lemma b_se_check : forall size s t, gen_se_check size s t = m_entry_check true size s t.
Proof. bridge. Qed.
Lemma b_se_start : forall o s, gen_se_start o s = m_global o s.
Proof. bridge. Qed.
Lemma b_se_stop : forall o t, gen_se_stop o t = m_global o t.
Proof. bridge. Qed.
(* GenomicLocationGlobal.get_windows *)
Lemma b_win_flank : forall f, gen_win_flank_l f = m_flank_l f /\ gen_win_flank_r f = m_flank_r f.
Proof. split; bridge. Qed.
Lemma b_win_size : forall w, gen_win_size_l w = m_wsize_l w /\ gen_win_size_r w = m_wsize_r w.
Proof. split; bridge. Qed.
Lemma b_win_iv : forall p l r, gen_win_start p l r = m_win_start p l /\ gen_win_stop p l r = m_win_stop p r.
Proof. split; bridge. Qed.
(* clip *)
Lemma b_clip : forall size s t, gen_clip_start size s = m_clip_start size s /\ gen_clip_stop size t = m_clip_stop size t.
Proof. split; bridge. Qed.
Lemma b_geo_clip : forall size s t,
  gen_geo_clip_start size s = m_geo_clip_start size s /\ gen_geo_clip_stop size t = m_geo_clip_stop size t.
Proof. split; bridge. Qed.
(* extend_to_size *)
Lemma b_extend : forall fwd s t n size,
  gen_extend_start fwd s t n size = m_extend_start fwd s t n /\ gen_extend_stop fwd s t n size = m_extend_stop fwd s t n size.
Proof. split; bridge. Qed.
(* get_location *)
Lemma b_loc_unstranded : forall is_start s t, gen_loc_unstranded is_start s t = m_loc_unstranded is_start s t.
Proof. bridge. Qed.
Lemma b_loc_stranded : forall is_start fwd s t, gen_loc_stranded is_start fwd s t = m_loc_stranded is_start fwd s t.
Proof. bridge. Qed.
Lemma b_loc_center : forall s t, gen_loc_center s t = m_loc_center s t.
Proof. bridge. Qed.
(* merged: gap / shift arithmetic, GenomicIntervalsFull.merged and Geometry.merge_intervals *)
Lemma b_merged_assert : forall d, gen_merged_assert d = negb (d <? 0).
Proof. bridge. Qed.
Lemma b_merged : forall x o c d,
  gen_merged_fwd_start (m_global o x) c d = x + m_shift o c d
  /\ gen_merged_fwd_stop (m_global o x) c d = x + m_shift o c d
  /\ gen_merged_shift o c d = m_shift o c d
  /\ gen_merged_back_start x o c d = x - m_shift o c d
  /\ gen_merged_back_stop x o c d = x - m_shift o c d.
Proof. repeat split; bridge. Qed.
Lemma b_geo_merged : forall x o c d,
  gen_geo_merged_fwd_start (m_global o x) c d = x + m_shift o c d
  /\ gen_geo_merged_fwd_stop (m_global o x) c d = x + m_shift o c d
  /\ gen_geo_merged_shift o c d = m_shift o c d
  /\ gen_geo_merged_back_start x o c d = x - m_shift o c d
  /\ gen_geo_merged_back_stop x o c d = x - m_shift o c d.
Proof. repeat split; bridge. Qed.

(* ------------------------------------------------------------------ (b) the model is the helpers put together *)
Lemma l_from_local : forall szs c p,
  from_local szs c p = if m_from_local_reject (size_of szs c) p then None else Some (m_from_local_value (off szs c) p).
Proof. reflexivity. Qed.
Lemma l_to_local : forall szs g,
  to_local szs g = let idx := m_to_local_idx (searchsorted_right (offsets szs) g) in (idx, m_to_local_pos (off szs idx) g).
Proof. reflexivity. Qed.
Lemma l_globalise : forall szs es,
  globalise szs es = map (fun e => set_se e (m_global (off szs (e_chr e)) (e_start e)) (m_global (off szs (e_chr e)) (e_stop e))) es.
Proof. reflexivity. Qed.
Lemma l_to_local_interval : forall szs gl,
  to_local_interval szs gl =
  let loc := map (fun e => let idx := m_to_local_idx (searchsorted_right (offsets szs) (e_start e)) in
                           set_chr (set_se e (m_to_local_pos (off szs idx) (e_start e)) (m_to_local_pos (off szs idx) (e_stop e))) idx) gl in
  if forallb (fun e => m_stop_fits (size_of szs (e_chr e)) (e_stop e)) loc then Some loc else None.
Proof. reflexivity. Qed.
(* the bounds checks accept a table exactly when every entry's refusal code is 0, and the checks run against the
   variant that refuses negative starts *)
Lemma l_check_bounds : forall neg szs es,
  check_bounds_gen neg szs es = None
  <-> Forall (fun e => m_entry_check neg (size_of szs (e_chr e)) (e_start e) (e_stop e) = 0) es.
Proof.
  intros neg szs es. unfold check_bounds_gen. split.
  - intros H. apply Forall_forall. intros e He. unfold m_entry_check, E_BOUNDS, E_ASSERT.
    destruct (existsb (fun e0 => size_of szs (e_chr e0) <=? e_start e0) es) eqn:E1; [discriminate|].
    destruct (neg && existsb (fun e0 => e_start e0 <? 0) es) eqn:E2; [discriminate|].
    destruct (forallb (fun e0 => e_stop e0 <=? size_of szs (e_chr e0)) es) eqn:E3; [|discriminate].
    assert (A1 : (size_of szs (e_chr e) <=? e_start e) = false).
    { apply not_true_is_false. intros Hx. assert (existsb (fun e0 => size_of szs (e_chr e0) <=? e_start e0) es = true)
        by (apply existsb_exists; exists e; tauto). congruence. }
    rewrite A1. rewrite forallb_forall in E3. rewrite (E3 e He). cbn [negb].
    destruct neg; [|reflexivity]. cbn [andb] in *.
    assert (A2 : (e_start e <? 0) = false).
    { apply not_true_is_false. intros Hx. assert (existsb (fun e0 => e_start e0 <? 0) es = true)
        by (apply existsb_exists; exists e; tauto). congruence. }
    rewrite A2. reflexivity.
  - intros H. rewrite Forall_forall in H.
    assert (A1 : existsb (fun e0 => size_of szs (e_chr e0) <=? e_start e0) es = false).
    { apply not_true_is_false. intros Hx. apply existsb_exists in Hx. destruct Hx as [e [He Hle]].
      specialize (H e He). unfold m_entry_check, E_BOUNDS in H. rewrite Hle in H. discriminate. }
    rewrite A1.
    assert (A2 : neg && existsb (fun e0 => e_start e0 <? 0) es = false).
    { destruct neg; [|reflexivity]. cbn [andb]. apply not_true_is_false. intros Hx. apply existsb_exists in Hx.
      destruct Hx as [e [He Hlt]]. specialize (H e He). unfold m_entry_check, E_BOUNDS in H.
      destruct (size_of szs (e_chr e) <=? e_start e); [discriminate|]. rewrite Hlt in H. discriminate. }
    rewrite A2.
    assert (A3 : forallb (fun e0 => e_stop e0 <=? size_of szs (e_chr e0)) es = true).
    { apply forallb_forall. intros e He. specialize (H e He). unfold m_entry_check, E_BOUNDS, E_ASSERT in H.
      destruct (size_of szs (e_chr e) <=? e_start e); [discriminate|].
      destruct (neg && (e_start e <? 0)); [discriminate|].
      destruct (e_stop e <=? size_of szs (e_chr e)); [reflexivity|discriminate]. }
    rewrite A3. reflexivity.
Qed.
Lemma l_checks_negative : checks_negative_start = true.
Proof. reflexivity. Qed.
Lemma l_clip : forall szs es,
  model_clip szs es = map (fun e => set_se e (m_clip_start (size_of szs (e_chr e)) (e_start e)) (m_clip_stop (size_of szs (e_chr e)) (e_stop e))) es.
Proof. reflexivity. Qed.
Lemma l_extend : forall szs n es,
  model_extend szs n es = map (fun e => set_se e (m_extend_start (e_fwd e) (e_start e) (e_stop e) n)
                                               (m_extend_stop (e_fwd e) (e_start e) (e_stop e) n (size_of szs (e_chr e)))) es.
Proof. intros. unfold model_extend. apply map_ext. intros e. unfold m_extend_start, m_extend_stop. destruct (e_fwd e); reflexivity. Qed.
Lemma l_windows : forall szs l r es,
  model_windows szs l r es = map (fun e => set_se e (m_clip_start (size_of szs (e_chr e)) (m_win_start (e_start e) l))
                                                   (m_clip_stop (size_of szs (e_chr e)) (m_win_stop (e_start e) r))) es.
Proof. intros. unfold model_windows, model_clip. rewrite map_map. reflexivity. Qed.
Lemma l_location : forall st w e,
  model_location st w e =
  if (w =? 0) || (w =? 1)
  then (if negb st then m_loc_unstranded (w =? 0) (e_start e) (e_stop e)
        else m_loc_stranded (w =? 0) (e_fwd e) (e_start e) (e_stop e))
  else m_loc_center (e_start e) (e_stop e).
Proof. reflexivity. Qed.
Lemma l_gap_shift : forall szs d c, gap_shift szs d c = m_shift (off szs c) c d.
Proof. reflexivity. Qed.
Lemma l_merged : forall szs us d es, model_merged szs us d es = model_merged_fixed szs us d es.
Proof. reflexivity. Qed.
Lemma l_geo_merge : forall szs d es, model_geo_merge szs d es = model_merged_fixed szs [] d es.
Proof. reflexivity. Qed.

(* ------------------------------------------------------------------ GenomeContext.with_ignored_added (shape tie) *)
(* the source hands `self.__class__` the dict  <base> updated with {name: <size> for name in ignored}  and the set
   union of the operands listed in gen_wia_ignored_set; the model reads that as below *)
Definition m_wia_ignored_set : list string := ["ignored"%string; "self._ignored"%string].   (* added ∪ previously ignored *)
Definition m_wia_dict_base : string := "self._original_chrom_sizes"%string.                   (* every original entry kept *)
Lemma b_with_ignored_added :
  gen_wia_ignored_set = m_wia_ignored_set /\ gen_wia_dict_base = m_wia_dict_base
  /\ gen_wia_added_size = 0.                                                                  (* an added name gets size 0 *)
Proof. repeat split; reflexivity. Qed.
Lemma l_with_ignored_added : forall x a,
  ctx_with_ignored_added x a = {| gx_dict := dict_update (gx_dict x) a; gx_ign := a ++ gx_ign x |}
  /\ (forall d n, dict_add d n = if name_in n (map c_name d) then set_size0 n d
                                 else d ++ [{| c_name := n; c_size := gen_wia_added_size |}]).
Proof. intros. split; reflexivity. Qed.

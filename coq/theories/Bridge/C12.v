(* Bridge/C12.v — (a) the decision rules regenerated from /repo on this run (Gen/C12.v, written by
   translate/gen_c12.py) are the rules named in Model/C12.v; (b) the state machines of Model/C12.v — the ones the
   theorems of Props/C12.v are about and the correspondence evaluates — take exactly the steps those rules
   prescribe.  A changed condition, a swapped statement order around a yield, a comparison of anything but the
   whole keys, or a re-ordered get_data argument list makes (a) fail (or Gen/C12.v degrade to `unit`). *)
From Coq Require Import ZArith List Bool.
From BNP Require Import Base.Prims Model.C12 Gen.C12.
Import ListNotations.
Open Scope Z_scope.

Ltac bridge := intros; cbv beta delta [gen_filter_ignore_underscores gen_ctx_is_ignored gen_ctx_is_included
  gen_order_drops_underscore_names gen_included_action gen_walk_is_match gen_walk_order_error gen_walk_checks_before_yield
  gen_walk_leftover_error gen_sync_check gen_sync_keeps_skipping gen_sync_checks_before_yield gen_lj_gets_default
  gen_lj_final_ok gen_change_at gen_change_offsets gen_fast_path gen_join_key_and_payload_index gen_get_data_names_first gen_cg_get_iter_stops_on_stopiteration gen_cg_args_in_list_order
  gen_cg_streamnode_pulls_first_eagerly gen_pull_order_get_data gen_pull_order_reduce gen_pull_order_field
  gen_streamable_zips_in_arg_order gen_pull_order_zip gen_ms_table_is_one_chunk_stream m_ms_table_is_one_chunk_stream gen_borders_compare_neighbouring_rows
  m_borders_compare_neighbouring_rows gen_with_ignored_added_is_functional m_with_ignored_added_is_functional m_cg_args_in_list_order m_cg_get_iter_stops_on_stopiteration
  m_cg_streamnode_pulls_first_eagerly m_streamable_zips_in_arg_order m_pull_order_get_data m_pull_order_reduce
  m_pull_order_field m_pull_order_zip SRC_NAMES SRC_DATA SRC_SIZES SRC_FIRST
  m_filter_ignore_underscores m_ctx_is_ignored m_ctx_is_included m_order_drops_underscore_names m_included_action
  m_walk_is_match m_walk_order_error m_walk_checks_before_yield m_walk_leftover_error m_sync_check m_sync_keeps_skipping
  m_sync_checks_before_yield m_lj_gets_default m_lj_final_ok m_change_at m_change_offsets m_fast_path
  m_join_key_and_payload_index m_get_data_names_first FIXED_ORDER AHEAD SYNC_AHEAD E_NOTINCL E_SEEN E_NOTIN
  gen_sync_shape gen_sync_following_check gen_with_following_pairs m_sync_shape sync_shape m_sync_following_check
  m_with_following_pairs SYNC_FOLLOWING] zeta;
  repeat match goal with b : bool |- _ => destruct b end;
  first [reflexivity | simpl in *; intuition discriminate].

(* ---------- (a) generated = model ---------- *)
Lemma b_filter_ignore_underscores : forall h, gen_filter_ignore_underscores h = m_filter_ignore_underscores h.
Proof. bridge. Qed.
(* ignored = the filter function rejects the key; the two filters the model has: keep-all (always True) and ignore_underscores *)
Lemma b_ctx_is_ignored : forall h,
  gen_ctx_is_ignored true = m_ctx_is_ignored true h
  /\ gen_ctx_is_ignored (gen_filter_ignore_underscores h) = m_ctx_is_ignored false h.
Proof. bridge. Qed.
Lemma b_ctx_is_included : forall i, gen_ctx_is_included i = m_ctx_is_included i.
Proof. bridge. Qed.
Lemma b_order_drops_underscore_names : gen_order_drops_underscore_names = m_order_drops_underscore_names.
Proof. bridge. Qed.
Lemma b_included_action : forall a b, gen_included_action a b = m_included_action a b.
Proof. bridge. Qed.
Lemma b_walk_is_match : forall a, gen_walk_is_match a = m_walk_is_match a.
Proof. bridge. Qed.
Lemma b_walk_order_error : forall a b, gen_walk_order_error a b = m_walk_order_error a b.
Proof. bridge. Qed.
Lemma b_walk_checks_before_yield : gen_walk_checks_before_yield = m_walk_checks_before_yield.
Proof. bridge. Qed.
Lemma b_walk_leftover_error : forall a, gen_walk_leftover_error a = m_walk_leftover_error a.
Proof. bridge. Qed.
Lemma b_sync_check : forall a b, gen_sync_check a b = m_sync_check a b.
Proof. bridge. Qed.
Lemma b_sync_keeps_skipping : forall a b, gen_sync_keeps_skipping a b = m_sync_keeps_skipping a b.
Proof. bridge. Qed.
Lemma b_sync_checks_before_yield : gen_sync_checks_before_yield = m_sync_checks_before_yield.
Proof. bridge. Qed.
(* SynchedStream.__iter__ has the fix-4 shape: the following group goes through the same two guards before `yield data` *)
Lemma b_sync_shape : gen_sync_shape = m_sync_shape.
Proof. bridge. Qed.
Lemma b_sync_following_check : forall h a b, gen_sync_following_check h a b = m_sync_following_check h a b.
Proof. bridge. Qed.
Lemma b_with_following_pairs : gen_with_following_pairs = m_with_following_pairs.
Proof. bridge. Qed.
Lemma b_lj_gets_default : forall a, gen_lj_gets_default a = m_lj_gets_default a.
Proof. bridge. Qed.
(* name_right and data_right are assigned together: both None or neither *)
Lemma b_lj_final_ok : forall a, gen_lj_final_ok a a = m_lj_final_ok a.
Proof. bridge. Qed.
Lemma b_change_at : forall a, gen_change_at a = m_change_at a.
Proof. bridge. Qed.
Lemma b_change_offsets : gen_change_offsets = m_change_offsets.
Proof. bridge. Qed.
(* the key column is an EncodedArray or has row lengths (StringArray, ragged); equal keys have equal lengths *)
Lemma b_fast_path : forall enc has_len len_eq eq,
  enc || has_len = true -> (eq = true -> len_eq = true) -> gen_fast_path enc has_len len_eq eq = m_fast_path eq.
Proof. bridge. Qed.
Lemma b_join_key_and_payload_index : gen_join_key_and_payload_index = m_join_key_and_payload_index.
Proof. bridge. Qed.
Lemma b_get_data_names_first : gen_get_data_names_first = m_get_data_names_first.
Proof. bridge. Qed.

(* the pull machine: how get_iter / ComputationNode / StreamNode / zip ask their sources, and in which order each
   public call lists its leaves (0 contig names, 1 the synchronised data stream, 2 contig sizes, 3 the first zip stream) *)
Lemma b_pull_machine :
  gen_cg_get_iter_stops_on_stopiteration = m_cg_get_iter_stops_on_stopiteration
  /\ gen_cg_args_in_list_order = m_cg_args_in_list_order
  /\ gen_cg_streamnode_pulls_first_eagerly = m_cg_streamnode_pulls_first_eagerly
  /\ gen_streamable_zips_in_arg_order = m_streamable_zips_in_arg_order.
Proof. repeat split; bridge. Qed.
Lemma b_pull_orders :
  gen_pull_order_get_data = m_pull_order_get_data /\ gen_pull_order_reduce = m_pull_order_reduce
  /\ gen_pull_order_field = m_pull_order_field /\ gen_pull_order_zip = m_pull_order_zip.
Proof. repeat split; bridge. Qed.

Lemma b_ms_table_is_one_chunk_stream : gen_ms_table_is_one_chunk_stream = m_ms_table_is_one_chunk_stream.
Proof. bridge. Qed.

Lemma b_borders_and_deriving :
  gen_borders_compare_neighbouring_rows = m_borders_compare_neighbouring_rows
  /\ gen_with_ignored_added_is_functional = m_with_ignored_added_is_functional.
Proof. split; bridge. Qed.

(* ---------- (b) the model's state machines follow the named rules ---------- *)
Section Steps.
Variable name : Type.
Variable neqb : name -> name -> bool.
Variable has_us : name -> bool.
Variable P : Type.
Variable empty : P.
Notation mem := (mem name neqb).

Lemma s_ctx_ignored keepall genome extra :
  ctx_ignored name has_us keepall genome extra = filter (fun c => m_ctx_is_ignored keepall (has_us c)) genome ++ extra.
Proof.
  unfold ctx_ignored, m_ctx_is_ignored. destruct keepall; [|reflexivity].
  f_equal. induction genome; simpl; auto.
Qed.
Lemma s_ctx_included keepall genome extra :
  ctx_included name neqb has_us keepall genome extra
  = filter (fun c => m_ctx_is_included (mem c (ctx_ignored name has_us keepall genome extra))) genome.
Proof. reflexivity. Qed.
Lemma s_order incl :
  (if FIXED_ORDER then chrom_order_fixed name incl else chrom_order name has_us incl)
  = if m_order_drops_underscore_names then filter (fun c => negb (has_us c)) incl else incl.
Proof. reflexivity. Qed.
Lemma s_included_groups ign incl n p r :
  included_groups name neqb P ign incl ((n, p) :: r)
  = let a := m_included_action (mem n ign) (mem n incl) in
    if a =? -1 then included_groups name neqb P ign incl r
    else if a =? 0 then (let '(l, e) := included_groups name neqb P ign incl r in ((n, p) :: l, e))
    else ([], true).
Proof. simpl. unfold m_included_action. destruct (mem n ign), (mem n incl); reflexivity. Qed.
(* the walk in use (AHEAD = m_walk_checks_before_yield selects it in genome_trace) *)
Lemma s_walk_ahead_match c rest seen n p n' p' up e :
  m_walk_is_match (neqb c n) = true ->
  walk_ahead name neqb P empty (c :: rest) seen ((n, p) :: (n', p') :: up) e
  = if m_walk_order_error (mem n' seen) (neqb n' c) then ([], Raise E_ORDER)
    else ycons p (walk_ahead name neqb P empty rest (seen ++ [c]) ((n', p') :: up) e).
Proof. unfold m_walk_is_match, m_walk_order_error. intros H. simpl. rewrite H. reflexivity. Qed.
Lemma s_walk_ahead_other c rest seen n p up e :
  m_walk_is_match (neqb c n) = false ->
  walk_ahead name neqb P empty (c :: rest) seen ((n, p) :: up) e
  = ycons empty (walk_ahead name neqb P empty rest (seen ++ [c]) ((n, p) :: up) e).
Proof. unfold m_walk_is_match. intros H. simpl. rewrite H. reflexivity. Qed.
Lemma s_walk_ahead_end seen R e :
  walk_ahead name neqb P empty [] seen R e
  = if m_walk_leftover_error (is_nil R) then ([], Raise E_LEFTOVER) else ([], Stop).
Proof. destruct R; reflexivity. Qed.
Lemma s_sync order rest seen n p gs :
  sync name neqb P empty order rest seen ((n, p) :: gs)
  = let c := m_sync_check (mem n seen) (mem n order) in
    if c =? 0 then (let '(k, r) := sync_skip name neqb n rest seen in
                    match r with
                    | None => (repeat empty k, Raise E_INDEX)
                    | Some (rest', seen') => yapp (repeat empty k ++ [p]) (sync name neqb P empty order rest' seen' gs)
                    end)
    else ([], Raise c).
Proof. simpl. unfold m_sync_check. destruct (mem n seen), (mem n order); reflexivity. Qed.
(* the machine in use (m_sync_shape = 2 selects it in synched_head): own name through the guards, defaults for the missing
   contigs, the FOLLOWING group's name through the same guards with the updated seen set, only then the group's data *)
Lemma s_sync_fol order rest seen n p gs :
  sync_fol name neqb P empty order rest seen ((n, p) :: gs)
  = let c := m_sync_check (mem n seen) (mem n order) in
    if c =? 0 then (let '(k, r) := sync_skip name neqb n rest seen in
                    match r with
                    | None => (repeat empty k, Raise E_INDEX)
                    | Some (rest', seen') =>
                        let c' := match gs with
                                  | (n', _) :: _ => m_sync_following_check true (mem n' seen') (mem n' order)
                                  | [] => m_sync_following_check false false false
                                  end in
                        if c' =? 0 then yapp (repeat empty k ++ [p]) (sync_fol name neqb P empty order rest' seen' gs)
                        else (repeat empty k, Raise c')
                    end)
    else ([], Raise c).
Proof.
  cbn [sync_fol]. unfold check_name, m_sync_check. destruct (mem n seen), (mem n order); try reflexivity.
  cbn [negb]. change (0 =? 0) with true. cbv iota beta zeta.
  destruct (sync_skip name neqb n rest seen) as [k [[rest' seen']|]]; [|reflexivity].
  destruct gs as [|[n' p'] gs']; [reflexivity|].
  unfold m_sync_following_check, m_sync_check. destruct (mem n' seen'), (mem n' order); reflexivity.
Qed.
Lemma s_sync_skip n c rest seen :
  sync_skip name neqb n (c :: rest) seen
  = if m_sync_keeps_skipping true (neqb n c)
    then (let '(k, r) := sync_skip name neqb n rest (seen ++ [c]) in (S k, r))
    else (O, Some (rest, seen ++ [c])).
Proof. simpl. unfold m_sync_keeps_skipping. destruct (neqb n c); reflexivity. Qed.
Lemma s_sync_skip_end n seen b :
  m_sync_keeps_skipping false b = false /\ sync_skip name neqb n [] seen = (O, None).
Proof. split; reflexivity. Qed.
Section LJ.
Variable S : Type.
Lemma s_left_join c s left n p up :
  left_join name neqb S P ((c, s) :: left) ((n, p) :: up)
  = if m_lj_gets_default (neqb c n) then ycons (c, s, None) (left_join name neqb S P left ((n, p) :: up))
    else ycons (c, s, Some p) (left_join name neqb S P left up).
Proof. simpl. unfold m_lj_gets_default. destruct (neqb c n); reflexivity. Qed.
Lemma s_left_join_end R :
  left_join name neqb S P [] R = if m_lj_final_ok (is_nil R) then ([], Stop) else ([], Raise E_ASSERT).
Proof. destruct R; reflexivity. Qed.
End LJ.
Lemma s_runs n i r n' ids gs :
  runs name neqb r = (n', ids) :: gs ->
  runs name neqb ((n, i) :: r)
  = if m_change_at (neqb n n') then (n, [i]) :: (n', ids) :: gs else (n, i :: ids) :: gs.
Proof. intros H. simpl. rewrite H. unfold m_change_at. destruct (neqb n n'); reflexivity. Qed.
Lemma s_group_chunk n0 i0 c :
  group_chunk name neqb ((n0, i0) :: c)
  = if m_fast_path (neqb (fst (last ((n0, i0) :: c) (n0, i0))) n0) then [(n0, map snd ((n0, i0) :: c))]
    else runs name neqb ((n0, i0) :: c).
Proof. reflexivity. Qed.
Lemma s_api_rows labels t :
  api_rows name labels t
  = stream_guard t (res_map (fun ys => flat_map (fun '(l, ids) => map (pair l) ids) (combine labels ys))
                            (if m_get_data_names_first then pull_n (Nat.max 1 (length labels)) t else pull_all t)).
Proof. reflexivity. Qed.
End Steps.
Lemma s_switches :
  genome_trace_head = genome_trace (negb m_order_drops_underscore_names) m_walk_checks_before_yield
  /\ (forall order gs, synched_head order gs = synched_by_shape m_sync_shape order gs)
  /\ (forall order gs, synched_by_shape 2 order gs = synched_fol bname zlist_eqb ids [] order gs)
  /\ (forall order gs, synched_by_shape 0 order gs = synched bname zlist_eqb ids [] order gs).
Proof. repeat split; reflexivity. Qed.

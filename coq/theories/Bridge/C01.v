(* Bridge/C01.v — the decision rules and arithmetic of the chunked reader regenerated from /repo on every run
   (Gen/C01.v, written by translate/gen_c01.py from parser.py, one_line_buffer.py, fastq_buffer.py,
   delimited_buffers.py, npdataclassreader.py) are the ones the model of Model/C01.v (and Model/C15.v) is built
   from.  A change of a comparison, an offset, a slice or of the order of the statements the generator matches
   makes one of these lemmas fail. *)
From Coq Require Import String.
From Coq Require Import ZArith List Bool Arith Lia.
From BNP Require Import Base.Prims Model.C01 Model.C15 Gen.C01.
Import ListNotations.
Open Scope Z_scope.

(* Python slice a[s:e:k] (k >= 1) as a predicate on indices of a list of length len; -1000 stands for None *)
Definition py_slice_sel (t : Z * Z * Z) (len : nat) (i : nat) : bool :=
  let '(s, e, k) := t in
  let s' := if s =? -1000 then 0 else if s <? 0 then Z.of_nat len + s else s in
  let e' := if e =? -1000 then Z.of_nat len else if e <? 0 then Z.of_nat len + e else e in
  let k' := if k =? -1000 then 1 else k in
  (s' <=? Z.of_nat i) && (Z.of_nat i <? e') && ((Z.of_nat i - s') mod k' =? 0).
Fixpoint filter_idx {A} (p : nat -> bool) (l : list A) (i : nat) : list A :=
  match l with [] => [] | x :: r => if p i then x :: filter_idx p r (S i) else filter_idx p r (S i) end.
Lemma filter_idx_ext {A} (p q : nat -> bool) (l : list A) : forall i,
  (forall j, (i <= j < i + length l)%nat -> p j = q j) -> filter_idx p l i = filter_idx q l i.
Proof.
  induction l as [|x l IH]; intros i H; [reflexivity|]. cbn [filter_idx].
  rewrite (H i) by (simpl; lia). rewrite (IH (S i)) by (intros j Hj; apply H; simpl; lia). reflexivity.
Qed.
Lemma strided_filter_idx (l : list Z) k n stop : forall i,
  strided l k n stop i = filter_idx (fun j => (j <? stop)%nat && (k <=? j)%nat && (((j - k) mod n) =? 0)%nat) l i.
Proof. induction l as [|x l IH]; intros i; [reflexivity|]. cbn [strided filter_idx]. rewrite IH. reflexivity. Qed.

(* ---- parser.py ---- *)
Lemma b_is_finished : forall n_read k : nat, gen_is_finished (Z.of_nat n_read) (Z.of_nat k) = m_is_finished n_read k.
Proof. intros. unfold gen_is_finished, m_is_finished. destruct (Nat.ltb_spec n_read k); [apply Z.ltb_lt|apply Z.ltb_ge]; lia. Qed.
Lemma b_read_nothing : forall raw : list Z,
  gen_read_nothing (Z.of_nat (length raw)) = match raw with [] => true | _ => false end.
Proof. intros [|x r]; [reflexivity|]. unfold gen_read_nothing. apply Z.eqb_neq. simpl length. lia. Qed.
Lemma b_terminate_iff_finished : gen_terminate_iff_finished = true.
Proof. reflexivity. Qed.
Lemma b_needs_newline : forall f chunk,
  add_term f chunk = (if gen_needs_newline (last chunk 0) then chunk ++ [10] else chunk) ++ marker f.
Proof. intros. unfold add_term, gen_needs_newline. destruct (last chunk 0 =? 10); reflexivity. Qed.
Lemma b_terminator_order : gen_terminator_order = ["newline"%string; "marker"%string].
Proof. reflexivity. Qed.
Lemma b_seek_offset : forall (pos' size : nat) (chunk : list Z),
  (size <= length chunk)%nat -> (length chunk <= pos')%nat ->
  Z.of_nat (pos' - length (skipn size chunk)) = Z.of_nat pos' + gen_seek_offset (Z.of_nat size) (Z.of_nat (length chunk)).
Proof. intros. unfold gen_seek_offset. rewrite skipn_length. lia. Qed.
(* the kept tail is the slice chunk[buff.size:] — from the buffer's size to the end, every element: skipn *)
Lemma b_prepend_slice : forall size : Z, gen_prepend_slice size = (size, -1000, -1000).
Proof. reflexivity. Qed.
Lemma b_tail_rule : gen_tail_rule = ["unless finished"%string; "seek back"%string; "else keep tail"%string].
Proof. reflexivity. Qed.
Lemma b_eof_give_up : forall (re : bool) (temp : list (list Z)),
  gen_eof_give_up re (Z.of_nat (length temp)) = (negb true || re || match temp with [] => true | _ => false end).
Proof.
  intros re temp. unfold gen_eof_give_up. destruct temp as [|c t]; destruct re; reflexivity.
Qed.
Lemma b_lines_after : forall l nl : nat, Z.of_nat (m_lines_after l nl) = gen_lines_after (Z.of_nat l) (Z.of_nat nl).
Proof. intros. unfold m_lines_after, gen_lines_after. lia. Qed.
Lemma b_reported_line : forall l0 lines : nat, Z.of_nat (m_reported l0 lines) = gen_reported_line (Z.of_nat l0) (Z.of_nat lines).
Proof. intros. unfold m_reported, gen_reported_line. lia. Qed.

(* parser.py __check_nothing_left (end of file, 03a5b64): the bytes that may follow the last complete entry are the
   white space of the generated list plus the format's entry marker; the reported line is the line after the delivered
   buffer (n_lines_read is advanced only afterwards), or the lines read so far when nothing became a buffer *)
Lemma b_ignored_bytes : forall f c, ignorable f c = existsb (Z.eqb c) (gen_ignored_bytes ++ marker f).
Proof.
  intros f c. unfold ignorable, gen_ignored_bytes. cbn [List.app existsb].
  destruct (c =? 32), (c =? 9), (c =? 13), (c =? 10); reflexivity.
Qed.
Lemma b_incomplete_line : forall l nl : nat, Z.of_nat (m_incomplete_line l nl) = gen_incomplete_line (Z.of_nat l) (Z.of_nat nl).
Proof. intros. unfold m_incomplete_line, gen_incomplete_line. lia. Qed.
Lemma b_pending_incomplete_line : forall l : nat, Z.of_nat (m_pending_incomplete_line l) = gen_pending_incomplete_line (Z.of_nat l).
Proof. reflexivity. Qed.

(* ---- one_line_buffer.py / fastq_buffer.py ---- *)
Lemma b_oneline_incomplete : forall cnt n : nat, gen_oneline_incomplete (Z.of_nat cnt) (Z.of_nat n) = m_oneline_incomplete cnt n.
Proof. intros. unfold gen_oneline_incomplete, m_oneline_incomplete. destruct (Nat.ltb_spec cnt n); [apply Z.ltb_lt|apply Z.ltb_ge]; lia. Qed.
Lemma b_oneline_kept : forall cnt n : nat, (1 <= n)%nat ->
  gen_oneline_kept (Z.of_nat cnt) (Z.of_nat n) = (-1000, Z.of_nat (m_oneline_kept cnt n), -1000).
Proof.
  intros cnt n Hn. unfold gen_oneline_kept, m_oneline_kept. do 2 f_equal.
  pose proof (Nat.mod_le cnt n ltac:(lia)). rewrite Nat2Z.inj_sub by assumption. rewrite Nat2Z.inj_mod. reflexivity.
Qed.
(* new_lines[: m] keeps the first m line breaks: firstn *)
Lemma b_oneline_size : forall last_kept : Z,
  gen_oneline_size last_kept = (-1000, Z.of_nat (m_size_after last_kept) + (last_kept + 1 - Z.max 0 (last_kept + 1)), -1000).
Proof. intros. unfold gen_oneline_size, m_size_after. do 2 f_equal. lia. Qed.
Lemma b_header_slice : forall (n : nat) (kept : list Z), (1 <= n)%nat ->
  strided kept (n - 1) n (length kept - 1) 0 = filter_idx (py_slice_sel (gen_header_slice (Z.of_nat n)) (length kept)) kept 0.
Proof.
  intros n kept Hn. rewrite strided_filter_idx. apply filter_idx_ext. intros j Hj.
  unfold gen_header_slice, py_slice_sel.
  replace (Z.of_nat n - 1 =? -1000) with false by (symmetry; apply Z.eqb_neq; lia).
  replace (Z.of_nat n - 1 <? 0) with false by (symmetry; apply Z.ltb_ge; lia).
  change (-1 =? -1000) with false. change (-1 <? 0) with true.
  replace (Z.of_nat n =? -1000) with false by (symmetry; apply Z.eqb_neq; lia).
  cbv beta iota zeta.
  destruct (Nat.leb_spec (n - 1) j) as [Hle|Hgt].
  - rewrite andb_true_r.
    replace (Z.of_nat n - 1 <=? Z.of_nat j) with true by (symmetry; apply Z.leb_le; lia). cbn [andb].
    f_equal.
    + destruct (Nat.ltb_spec j (length kept - 1)); [symmetry; apply Z.ltb_lt|symmetry; apply Z.ltb_ge]; lia.
    + replace (Z.of_nat j - (Z.of_nat n - 1)) with (Z.of_nat (j - (n - 1))) by lia.
      rewrite <- Nat2Z.inj_mod.
      destruct (Nat.eqb_spec ((j - (n - 1)) mod n) 0) as [E|E]; [rewrite E; reflexivity|].
      symmetry. apply Z.eqb_neq. lia.
  - rewrite andb_false_r. cbn [andb].
    replace (Z.of_nat n - 1 <=? Z.of_nat j) with false by (symmetry; apply Z.leb_gt; lia). reflexivity.
Qed.
Lemma b_header_line : forall i n : nat, Z.of_nat (m_header_line i n) = gen_header_line (Z.of_nat i) (Z.of_nat n).
Proof. intros. unfold m_header_line, gen_header_line. lia. Qed.
Lemma b_first_record_line : gen_first_record_line = 0.
Proof. reflexivity. Qed.
Lemma b_plus_slice : forall (n : nat) (kept : list Z), (1 <= n)%nat ->
  strided kept 1 n (length kept) 0 = filter_idx (py_slice_sel (gen_plus_slice (Z.of_nat n)) (length kept)) kept 0.
Proof.
  intros n kept Hn. rewrite strided_filter_idx. apply filter_idx_ext. intros j Hj.
  unfold gen_plus_slice, py_slice_sel.
  replace (1 =? -1000) with false by reflexivity. replace (1 <? 0) with false by reflexivity.
  replace (-1000 =? -1000) with true by reflexivity.
  replace (Z.of_nat n =? -1000) with false by (symmetry; apply Z.eqb_neq; lia).
  cbv beta iota zeta.
  replace (j <? length kept)%nat with true by (symmetry; apply Nat.ltb_lt; lia).
  replace (Z.of_nat j <? Z.of_nat (length kept)) with true by (symmetry; apply Z.ltb_lt; lia).
  cbn [andb]. rewrite andb_true_r.
  destruct (Nat.leb_spec 1 j) as [Hle|Hgt].
  - replace (1 <=? Z.of_nat j) with true by (symmetry; apply Z.leb_le; lia). cbn [andb].
    replace (Z.of_nat j - 1) with (Z.of_nat (j - 1)) by lia. rewrite <- Nat2Z.inj_mod.
    destruct (Nat.eqb_spec ((j - 1) mod n) 0) as [E|E]; [rewrite E; reflexivity|].
    symmetry. apply Z.eqb_neq. lia.
  - replace (1 <=? Z.of_nat j) with false by (symmetry; apply Z.leb_gt; lia). reflexivity.
Qed.
Lemma b_plus_symbol : gen_plus_symbol = 43.
Proof. reflexivity. Qed.
Lemma b_plus_line : forall j n : nat, Z.of_nat (m_plus_line j n) = gen_plus_line (Z.of_nat j) (Z.of_nat n).
Proof. intros. unfold m_plus_line, gen_plus_line. lia. Qed.
(* fastq_buffer.py _validate (repaired): the '+' violation is raised when its line precedes the header violation's *)
Lemma b_plus_wins : forall p h : nat, m_plus_wins p h = gen_plus_wins (Z.of_nat p) (Z.of_nat h).
Proof.
  intros p h. unfold m_plus_wins, gen_plus_wins.
  destruct (Nat.ltb_spec p h); symmetry; [apply Z.ltb_lt|apply Z.ltb_ge]; lia.
Qed.

(* ---- delimited_buffers.py, npdataclassreader.py ---- *)
Lemma b_delim_size : forall last_nl : Z, m_size_after last_nl = Z.to_nat (gen_delim_size last_nl).
Proof. reflexivity. Qed.
Lemma b_delim_n_fields : forall first_end : Z, gen_delim_n_fields first_end = first_end + 1.
Proof. reflexivity. Qed.
(* Model/C15.v report: a violation in row i of a chunk is reported as (lines before) + i *)
Lemma b_parse_error_line : forall i before : nat, Z.of_nat (before + i) = gen_parse_error_line (Z.of_nat i) (Z.of_nat before).
Proof. intros. unfold gen_parse_error_line. lia. Qed.

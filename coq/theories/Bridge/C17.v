(* Bridge/C17.v — the arithmetic regenerated from /repo's indexed_fasta.py (Gen/C17.v) is the arithmetic the
   theorems of Props/C17.v are about (Model/C17.v).  Re-checked on every run; a change of an offset, a
   comparison or a formula in the source makes one of these fail. *)
From Coq Require Import ZArith Lia String.
From BNP Require Import Model.C17 Gen.C17.
Open Scope Z_scope.

Ltac bridge := intros; cbv beta delta [gen_getitem_n_rows gen_getitem_bytes_to_read gen_getitem_seek gen_slow_seek
  gen_slow_read_len gen_slow_n_del gen_slow_del_index gen_fast_read_start gen_fast_read_len gen_fast_n_del
  gen_fast_start_mod gen_fast_del_index m_n_rows m_bytes_to_read m_phys m_read_start m_read_len m_n_del m_del_index] zeta;
  first [reflexivity | ring | lia].

Lemma b_getitem_n_rows : forall rlen offset lenc lenb, gen_getitem_n_rows rlen offset lenc lenb = m_n_rows rlen lenc.
Proof. bridge. Qed.
Lemma b_getitem_bytes_to_read : forall rlen offset lenc lenb,
  gen_getitem_bytes_to_read rlen offset lenc lenb = m_bytes_to_read rlen lenc lenb.
Proof. bridge. Qed.
Lemma b_getitem_seek : forall rlen offset lenc lenb, gen_getitem_seek rlen offset lenc lenb = offset.
Proof. bridge. Qed.
Lemma b_slow_seek : forall rlen offset lenc lenb a b, gen_slow_seek rlen offset lenc lenb a b = m_read_start offset lenc lenb a.
Proof. bridge. Qed.
Lemma b_slow_read_len : forall rlen offset lenc lenb a b, gen_slow_read_len rlen offset lenc lenb a b = m_read_len lenc lenb a b.
Proof. bridge. Qed.
Lemma b_slow_n_del : forall rlen offset lenc lenb a b, gen_slow_n_del rlen offset lenc lenb a b = m_n_del lenc a b.
Proof. bridge. Qed.
Lemma b_slow_del_index : forall rlen offset lenc lenb a b j,
  gen_slow_del_index rlen offset lenc lenb a b j = m_del_index lenb (a mod lenc) j.
Proof. bridge. Qed.
Lemma b_fast_read_start : forall rlen offset lenc lenb a b, gen_fast_read_start rlen offset lenc lenb a b = m_read_start offset lenc lenb a.
Proof. bridge. Qed.
Lemma b_fast_read_len : forall rlen offset lenc lenb a b, gen_fast_read_len rlen offset lenc lenb a b = m_read_len lenc lenb a b.
Proof. bridge. Qed.
Lemma b_fast_n_del : forall rlen offset lenc lenb a b, gen_fast_n_del rlen offset lenc lenb a b = m_n_del lenc a b.
Proof. bridge. Qed.
Lemma b_fast_start_mod : forall rlen offset lenc lenb a b, gen_fast_start_mod rlen offset lenc lenb a b = a mod lenc.
Proof. bridge. Qed.
Lemma b_fast_del_index : forall lenb start_mod j, gen_fast_del_index lenb start_mod j = m_del_index lenb start_mod j.
Proof. bridge. Qed.
Lemma b_contig_length_column : gen_contig_length_column = contig_length_column.
Proof. reflexivity. Qed.
Lemma b_ci_offsets : forall sizes, gen_ci_offsets sizes = m_ci_offsets sizes.
Proof. reflexivity. Qed.
Lemma b_ci_shift : forall start offset, gen_ci_shift start offset = m_ci_shift start offset.
Proof. reflexivity. Qed.

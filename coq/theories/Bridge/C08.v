(* Bridge/C08.v — the per-element arithmetic regenerated from /repo (Gen/C08.v: intervals.py, similarity_measures.py,
   geometry.py) is the arithmetic the theorems of Props/C08.v are about (Model/C08.v).  Re-checked on every run: a
   changed comparison, clamp, offset, slice, key order or formula in the source makes one of these fail.
   Vectorised NumPy expressions over equally shaped arrays are read per element. *)
From Coq Require Import ZArith List Bool Lia String.
From BNP Require Import Base.Prims Model.C08 Gen.C08.
Import ListNotations.
Open Scope Z_scope.

(* fixed cascade: unfold both sides, orient comparisons, split on the boolean conditions, then reflexivity / ring / lia *)
Ltac bridge := intros;
  cbv beta delta [gen_clip_start gen_clip_stop gen_geom_clip_start gen_geom_clip_stop gen_extend_start gen_extend_stop
    gen_merge_shift gen_merge_unshift gen_merge_new_run gen_count_overlap_term gen_intersect_keep gen_intersect_piece
    gen_mask_keep gen_table_00 gen_table_01 gen_table_10 gen_table_11 gen_jaccard_num gen_jaccard_den gen_forbes_num
    gen_forbes_den gen_merge_sorted_pair gen_merge_assert
    clip_one clip_fixed clip_pinned extend_one t_tag t_start t_stop fst snd
    m_merge_sorted_pair m_merge_new_run m_mask_keep m_overlap_term m_intersect_keep m_intersect_piece
    m_cell_00 m_cell_01 m_cell_10 m_cell_11 m_jaccard_num m_jaccard_den m_forbes_num m_forbes_den] zeta iota;
  rewrite ?Z.gtb_ltb, ?Z.geb_leb;
  repeat match goal with |- context [if ?b then _ else _] => destruct b end;
  first [reflexivity | ring | lia].

(* clip, arithmetics.intervals.clip and Geometry.clip: both ends clamped into [0, size] *)
Lemma b_clip_start : forall s e size, gen_clip_start s e size = fst (clip_one size (s, e)). Proof. bridge. Qed.
Lemma b_clip_stop : forall s e size, gen_clip_stop s e size = snd (clip_one size (s, e)). Proof. bridge. Qed.
Lemma b_geom_clip_start : forall s e size, gen_geom_clip_start s e size = fst (clip_one size (s, e)). Proof. bridge. Qed.
Lemma b_geom_clip_stop : forall s e size, gen_geom_clip_stop s e size = snd (clip_one size (s, e)). Proof. bridge. Qed.

(* extend_to_size: np.where(strand == "+", ..) with the maximum / minimum clamps; tag 1 is the forward strand *)
Lemma b_extend_start : forall tag s e frag size,
  gen_extend_start (tag =? 1) s e frag size = t_start (extend_one size frag (tag, s, e)). Proof. bridge. Qed.
Lemma b_extend_stop : forall tag s e frag size,
  gen_extend_stop (tag =? 1) s e frag size = t_stop (extend_one size frag (tag, s, e)). Proof. bridge. Qed.
Lemma b_extend_forward_symbol : gen_extend_forward_symbol = extend_forward_symbol. Proof. reflexivity. Qed.

(* merge_intervals *)
Lemma b_merge_sorted_pair : forall a b, gen_merge_sorted_pair a b = m_merge_sorted_pair a b. Proof. bridge. Qed.
Lemma b_merge_new_run : forall s p, gen_merge_new_run s p = m_merge_new_run s p. Proof. bridge. Qed.
Lemma b_merge_assert : forall s p, gen_merge_assert s p = m_merge_new_run s p. Proof. bridge. Qed.
(* `if distance > 0: stops += distance` / `new_interval.stop -= distance`, element by element *)
Lemma b_merge_shift : forall d l, map (gen_merge_shift d) l = m_merge_shift d l.
Proof.
  intros. unfold m_merge_shift. cbv beta delta [gen_merge_shift]. rewrite Z.gtb_ltb.
  destruct (0 <? d); [reflexivity|apply map_id].
Qed.
Lemma b_merge_unshift : forall d l, map (gen_merge_unshift d) l = m_merge_unshift d l.
Proof.
  intros. unfold m_merge_unshift. cbv beta delta [gen_merge_unshift]. rewrite Z.gtb_ltb.
  destruct (0 <? d); [reflexivity|apply map_id].
Qed.

(* get_boolean_mask: merged intervals with start != stop are kept *)
Lemma b_mask_keep : forall s e, gen_mask_keep s e = m_mask_keep s e. Proof. bridge. Qed.

(* count_overlap / intersect: stops[:-1] against starts[1:] *)
Lemma b_count_overlap_term : forall e s, gen_count_overlap_term e s = m_overlap_term e s. Proof. bridge. Qed.
Lemma b_count_overlap_sorted : gen_count_overlap_sorted = count_overlap_sorted. Proof. reflexivity. Qed.
Lemma b_intersect_keep : forall e s, gen_intersect_keep e s = m_intersect_keep e s. Proof. bridge. Qed.
Lemma b_intersect_piece : forall e s, gen_intersect_piece e s = m_intersect_piece e s. Proof. bridge. Qed.

(* sort keys, primary key first *)
Lemma b_sort_lex_keys : gen_sort_lex_keys = sort_lex_keys. Proof. reflexivity. Qed.
Lemma b_sort_tuple_keys : gen_sort_tuple_keys = sort_tuple_keys. Proof. reflexivity. Qed.
Lemma b_geom_sort_keys : gen_geom_sort_keys = geom_sort_keys. Proof. reflexivity. Qed.
(* ... and the order these key lists define is the order the sort models (and theorem C08_sort_perm) use *)
Lemma keys_order : forall a b, leb_of_keys sort_lex_keys a b = Some (key3_leb a b).
Proof.
  intros [[c1 s1] e1] [[c2 s2] e2]. cbv [leb_of_keys sort_lex_keys field key3_leb t_tag t_start t_stop fst snd String.eqb Ascii.eqb Bool.eqb].
  f_equal.
  destruct (Z.ltb_spec c1 c2); destruct (Z.eqb_spec c1 c2); destruct (Z.ltb_spec s1 s2); destruct (Z.eqb_spec s1 s2);
  destruct (Z.ltb_spec e1 e2); destruct (Z.eqb_spec e1 e2); destruct (Z.leb_spec e1 e2); cbn; try reflexivity; lia.
Qed.
Lemma tuple_keys_order : forall a b, leb_of_keys (removelast sort_tuple_keys) a b = Some (key3_leb a b).
Proof. exact keys_order. Qed.
Lemma sort_models_use_key3 : forall I, sort_lex_model I = isort key3_leb I /\ sort_full_model I = isort key3_leb I
                                       /\ geom_sort_leb = key3_leb.
Proof. intros. repeat split; reflexivity. Qed.

(* similarity_measures: layout of the contingency table and the two fractions *)
Lemma b_table_00 : forall a b, gen_table_00 a b = m_cell_00 a b. Proof. bridge. Qed.
Lemma b_table_01 : forall a b, gen_table_01 a b = m_cell_01 a b. Proof. bridge. Qed.
Lemma b_table_10 : forall a b, gen_table_10 a b = m_cell_10 a b. Proof. bridge. Qed.
Lemma b_table_11 : forall a b, gen_table_11 a b = m_cell_11 a b. Proof. bridge. Qed.
Lemma b_jaccard_num : forall a b c d, gen_jaccard_num a b c d = m_jaccard_num a b c d. Proof. bridge. Qed.
Lemma b_jaccard_den : forall a b c d, gen_jaccard_den a b c d = m_jaccard_den a b c d. Proof. bridge. Qed.
Lemma b_forbes_num : forall a b c d, gen_forbes_num a b c d = m_forbes_num a b c d. Proof. bridge. Qed.
Lemma b_forbes_den : forall a b c d, gen_forbes_den a b c d = m_forbes_den a b c d. Proof. bridge. Qed.

(* Bridge/C18.v — the arithmetic regenerated from /repo's bionumpy/io/strops.py and io/file_buffers.py on this run
   (Gen/C18.v, written by translate/run.py via translate/gen_c18.py) is the arithmetic the model functions of
   Model/C18.v are written in, hence the arithmetic the theorems of Props/C18.v are about.
   Every bridge lemma is proved by ONE fixed cascade; the only hand-written lemmas are about the translator's
   reading primitives (np_searchsorted_right on the powers table, reading the table at an index, the exponent
   of column j of a descending row) and do not mention any generated formula. *)
From Coq Require Import ZArith List Bool Lia.
From BNP Require Import Base.Prims Base.PrimsFacts Model.C18 Proofs.C18_power Gen.C18.
Import ListNotations.
Open Scope Z_scope.

(* ---------- facts about the reading primitives ---------- *)
Lemma searchsorted_pow_table : forall k a,
  np_searchsorted_right (map (fun j => 10 ^ j) (arange_from 1 k)) a = count_pow_le k a.
Proof.
  induction k as [|k IH]; intros a; [reflexivity|].
  replace (S k) with (k + 1)%nat by lia. rewrite arange_from_app, map_app.
  unfold np_searchsorted_right in *. rewrite filter_app, len_app, IH.
  replace (k + 1)%nat with (S k) by lia. cbn [count_pow_le arange_from map filter]. f_equal.
  replace (1 + Z.of_nat k) with (Z.of_nat (S k)) by lia.
  destruct (10 ^ Z.of_nat (S k) <=? a); reflexivity.
Qed.
(* the generated table is 10^0 .. 10^19 (the uint64 wrap-around does not bite below 10^20) *)
Lemma powers_table_tail : tl gen_powers_of_ten = map (fun j => 10 ^ j) (arange_from 1 19).
Proof. vm_compute. reflexivity. Qed.
Lemma powers_table_nth : forall p, 0 <= p <= 19 -> nthZ gen_powers_of_ten p = pow10_u64 p.
Proof.
  intros p H.
  assert (E : p = 0 \/ p = 1 \/ p = 2 \/ p = 3 \/ p = 4 \/ p = 5 \/ p = 6 \/ p = 7 \/ p = 8 \/ p = 9 \/ p = 10 \/ p = 11
              \/ p = 12 \/ p = 13 \/ p = 14 \/ p = 15 \/ p = 16 \/ p = 17 \/ p = 18 \/ p = 19) by lia.
  repeat (destruct E as [E|E]; [subst p; vm_compute; reflexivity|]). subst p. vm_compute. reflexivity.
Qed.
Lemma nthZ_down : forall n j, 0 <= j < Z.of_nat n -> nthZ (down n) j = Z.of_nat n - 1 - j.
Proof.
  induction n as [|n IH]; intros j H; [lia|].
  unfold nthZ in *. cbn [down]. destruct (Z.to_nat j) as [|k] eqn:E.
  - cbn [nth]. lia.
  - cbn [nth]. specialize (IH (j - 1)). replace (Z.to_nat (j - 1)) with k in IH by lia. rewrite IH by lia. lia.
Qed.

(* ---------- the fixed cascade ---------- *)
Ltac bridge := intros;
  cbv beta delta [gen_its_magnitude gen_its_length gen_its_digit gen_pa_fill gen_pa_dot_fill gen_pa_dot_offset
    gen_pa_bump_first gen_pa_bump_rest gen_s2i_power gen_s2i_term gen_s2i_signed gen_s2i_matrix_power
    gen_dec_frac_digits gen_dec_signed gen_dec_den gen_sci_mant_end gen_sci_exp_start gen_ilts_row_len gen_join_len
    gen_mida_index gen_mida_n_fill gen_mida_fill_start
    m_fill m_dot_fill m_dot_offset m_bump m_pow10 m_signed m_digit m_frac_digits m_dec_den m_sci_mant_end
    m_sci_exp_start m_row_len m_join_len m_n_fill m_window_index m_row_start width_exact b2z] zeta;
  rewrite ?powers_table_tail, ?searchsorted_pow_table, ?powers_table_nth by assumption;
  repeat match goal with b : bool |- _ => destruct b end;
  repeat match goal with |- context [if ?c then _ else _] => destruct c end;
  repeat match goal with |- context [count_pow_le ?k ?a] => generalize (count_pow_le k a); intro end;
  first [lia | ring | reflexivity].

(* ---------- ints_to_strings ---------- *)
Lemma b_its_magnitude : forall n, gen_its_magnitude n = Z.abs n.
Proof. bridge. Qed.
Lemma b_its_length : forall n, gen_its_length n = width_exact n + b2z (n <? 0).
Proof. bridge. Qed.
Lemma b_its_digit : forall n p, 0 <= p <= 19 -> gen_its_digit n p = m_digit (Z.abs n) (pow10_u64 p).
Proof. bridge. Qed.
(* ---------- _build_power_array ---------- *)
Lemma b_pa_fill : gen_pa_fill = m_fill. Proof. bridge. Qed.
Lemma b_pa_dot_fill : gen_pa_dot_fill = m_dot_fill. Proof. bridge. Qed.
Lemma b_pa_dot_offset : gen_pa_dot_offset = m_dot_offset. Proof. bridge. Qed.
Lemma b_pa_bump_first : forall l o, gen_pa_bump_first l o = m_bump l o. Proof. bridge. Qed.
Lemma b_pa_bump_rest : forall l o, gen_pa_bump_rest l o = m_bump l o. Proof. bridge. Qed.
(* ---------- str_to_int ---------- *)
Lemma b_s2i_power : forall p, gen_s2i_power p = m_pow10 p. Proof. bridge. Qed.
Lemma b_s2i_term : forall d p, gen_s2i_term d p = d * p. Proof. bridge. Qed.      (* the summand of dotp *)
Lemma b_s2i_signed : forall neg v, gen_s2i_signed neg v = m_signed neg v. Proof. bridge. Qed.
Lemma b_s2i_matrix_power : forall w j, gen_s2i_matrix_power w j = m_pow10 (w - 1 - j). Proof. bridge. Qed.
(* ---------- float parsing ---------- *)
Lemma b_dec_frac_digits : forall l c, gen_dec_frac_digits l c = m_frac_digits l c. Proof. bridge. Qed.
Lemma b_dec_signed : forall neg b, gen_dec_signed neg b = (if neg then - b else b). Proof. bridge. Qed.
Lemma b_dec_den : forall f, gen_dec_den f = m_dec_den f. Proof. bridge. Qed.
Lemma b_sci_mant_end : forall c, gen_sci_mant_end c = m_sci_mant_end c. Proof. bridge. Qed.
Lemma b_sci_exp_start : forall c, gen_sci_exp_start c = m_sci_exp_start c. Proof. bridge. Qed.
(* ---------- joining ---------- *)
Lemma b_ilts_row_len : forall s n, gen_ilts_row_len s n = m_row_len s n. Proof. bridge. Qed.
Lemma b_join_len : forall l, gen_join_len l = m_join_len l. Proof. bridge. Qed.
(* ---------- move_intervals_to_digit_array ---------- *)
Lemma b_mida_index : forall s e w j, gen_mida_index s e w j = m_window_index e w j. Proof. bridge. Qed.
Lemma b_mida_n_fill : forall s e w, gen_mida_n_fill s e w = m_n_fill w (e - s). Proof. bridge. Qed.
Lemma b_mida_fill_start : forall i n w, gen_mida_fill_start i n w = m_row_start i w. Proof. bridge. Qed.

(* ---------- how the named kernels sit in the list-level model (not about generated text) ---------- *)
(* column j of a descending exponent row of width w carries 10^(w-1-j): the matrix path's powers *)
Lemma matrix_power_column : forall w j, 0 <= j < Z.of_nat w ->
  nthZ (map m_pow10 (down w)) j = m_pow10 (Z.of_nat w - 1 - j).
Proof.
  intros w j H. unfold nthZ.
  rewrite nth_indep with (d' := m_pow10 0) by (rewrite map_length, length_down; lia).
  rewrite map_nth. f_equal. fold (nthZ (down w) j). apply nthZ_down. exact H.
Qed.
(* the window of the digit matrix: columns right of the fill show the field's own bytes *)
Lemma window_index_field : forall s l w j, m_window_index (s + l) w j = s + (j - m_n_fill w l).
Proof. intros. unfold m_window_index, m_n_fill. ring. Qed.
(* splitting at the 'e': the mantissa is text[:c], the exponent text[c+1:] *)
Lemma split_first_slices : forall c a r, ~ In c a ->
  split_first c (a ++ c :: r)
  = (firstn (Z.to_nat (m_sci_mant_end (len a))) (a ++ c :: r), Some (skipn (Z.to_nat (m_sci_exp_start (len a))) (a ++ c :: r))).
Proof.
  intros c a r H. unfold m_sci_mant_end, m_sci_exp_start.
  assert (E : split_first c (a ++ c :: r) = (a, Some r)).
  { clear -H. induction a as [|x a IH].
    - cbn. rewrite Z.eqb_refl. reflexivity.
    - cbn [app split_first]. destruct (Z.eqb_spec x c) as [E|E]; [exfalso; apply H; left; exact E|].
      rewrite IH; [reflexivity|]. intros Hin. apply H. right. exact Hin. }
  rewrite E. unfold len. rewrite Nat2Z.id. replace (Z.to_nat (Z.of_nat (length a) + 1)) with (length a + 1)%nat by lia.
  rewrite firstn_app, Nat.sub_diag, firstn_all, firstn_O, app_nil_r.
  rewrite skipn_app. replace (length a + 1 - length a)%nat with 1%nat by lia.
  rewrite skipn_all2 by lia. reflexivity.
Qed.
Lemma join_len_text : forall (t : list Z) sep, len (t ++ [sep]) = m_join_len (len t).
Proof. intros. rewrite len_app. reflexivity. Qed.
Lemma dec_den_frac : forall neg b f, 0 <= f -> snd (frac_of neg b (0 - f)) = m_dec_den f.
Proof. intros. unfold frac_of, m_dec_den. cbn [snd]. f_equal. lia. Qed.

(* Bridge/C13.v — the arithmetic regenerated from /repo's sliding-window code (Gen/C13.v, written by
   translate/run.py via translate/gen_c13.py) is the arithmetic the theorems of Props/C13.v are about.
   Part 1: Gen.f = the named helper of Model/C13.v (fixed cascade).  Part 2: the model's definitions are built
   from those helpers (delta-equalities).  Re-checked on every run; a changed slice bound, power, shift, mask,
   comparison or window formula in the source makes a lemma of part 1 fail. *)
From Coq Require Import ZArith List Lia.
From BNP Require Import Base.Prims.
From BNP Require Import Base.PrimsFacts.
From BNP Require Import Model.C13.
From BNP Require Import Gen.C13.
Import ListNotations.
Open Scope Z_scope.

Ltac bridge := intros; cbv beta delta [gen_stop_rollable gen_stop_convolution gen_stop_motif gen_stop_util
  gen_kmer_weight gen_kmer_call_is_dot gen_get_kmers_packed_test gen_encode_weight_str gen_encode_weight_list
  gen_to_string_packed_test gen_to_string_digit4 gen_to_string_digit gen_n_labels gen_minimizer_n_kmers
  gen_minimizer_window gen_pwm_acc_stop gen_pwm_seq_start
  stop_of stop_fixed m_kmer_weight m_packed_test m_digit4 m_digit m_n_labels m_min_n_kmers m_min_window m_pwm_acc_len] zeta;
  first [reflexivity | ring | lia].

(* option-valued slice bounds: decide every `_ =? 0` test, then the same cascade on the payloads, so that a neutral
   re-spelling (1 - w for -w + 1) survives and a changed bound does not *)
Ltac bridge_opt := intros; cbv beta delta [gen_stop_rollable gen_stop_convolution gen_stop_motif gen_stop_util
  stop_of stop_fixed] zeta;
  repeat match goal with |- context [?a =? 0] => destruct (Z.eqb_spec a 0) end;
  first [reflexivity | f_equal; lia | exfalso; lia].

(* ---- part 1: source = model helper *)
(* the column slice bound at the four sites is the one the model (and the correspondence) uses *)
Lemma b_stop_rollable : forall w, gen_stop_rollable w = stop_of w. Proof. bridge_opt. Qed.
Lemma b_stop_convolution : forall w, gen_stop_convolution w = stop_of w. Proof. bridge_opt. Qed.
Lemma b_stop_motif : forall w, gen_stop_motif w = stop_of w. Proof. bridge_opt. Qed.
Lemma b_stop_util : forall w, gen_stop_util w = stop_of w. Proof. bridge_opt. Qed.
Lemma b_kmer_weight : forall n k j, gen_kmer_weight n k j = m_kmer_weight n j. Proof. bridge. Qed.
Lemma b_kmer_call_is_dot : gen_kmer_call_is_dot = true. Proof. bridge. Qed.
Lemma b_get_kmers_packed_test : forall n, gen_get_kmers_packed_test n = m_packed_test n. Proof. bridge. Qed.
Lemma b_encode_weight_str : forall n k j, gen_encode_weight_str n k j = m_kmer_weight n j. Proof. bridge. Qed.
Lemma b_encode_weight_list : forall n k j, gen_encode_weight_list n k j = m_kmer_weight n j. Proof. bridge. Qed.
Lemma b_to_string_packed_test : forall n, gen_to_string_packed_test n = m_packed_test n. Proof. bridge. Qed.
Lemma b_to_string_digit4 : forall h k j, gen_to_string_digit4 h k j = m_digit4 h j. Proof. bridge. Qed.
Lemma b_to_string_digit : forall n h k j, gen_to_string_digit n h k j = m_digit n h j. Proof. bridge. Qed.
Lemma b_n_labels : forall n k, gen_n_labels n k = m_n_labels n k. Proof. bridge. Qed.
Lemma b_minimizer_n_kmers : forall W k, gen_minimizer_n_kmers W k = m_min_n_kmers W k. Proof. bridge. Qed.
Lemma b_minimizer_window : forall nk k, gen_minimizer_window nk k = m_min_window nk k. Proof. bridge. Qed.
Lemma b_pwm_acc_stop : forall size offset, gen_pwm_acc_stop size offset = m_pwm_acc_len size offset. Proof. bridge. Qed.
Lemma b_pwm_seq_start : forall size offset, gen_pwm_seq_start size offset = offset. Proof. bridge. Qed.

(* ---- part 2: the model is built from the helpers *)
Lemma m_powers : forall n k, powers n k = map (m_kmer_weight n) (arange k).
Proof. reflexivity. Qed.
Lemma m_hash : forall n k win, hash_generic n k win = dot win (map (m_kmer_weight n) (arange k))
                               /\ encode_kmer n k win = dot win (map (m_kmer_weight n) (arange k)).
Proof. split; reflexivity. Qed.
Lemma m_get_kmers : forall stopf n k rows,
  get_kmers_with stopf n k rows =
  if m_packed_test n then rewrap_trim (stopf k) 0 (map len rows) (kmers_packed k (concat rows))
  else rolling_with stopf (hash_generic n k) k rows.
Proof. reflexivity. Qed.
Lemma m_decode : forall n k h,
  decode_kmer n k h = if m_packed_test n then map (m_digit4 h) (arange k) else map (m_digit n h) (arange k).
Proof.
  intros. unfold decode_kmer, m_packed_test, powers. destruct (n =? 4); [reflexivity|].
  rewrite map_map. reflexivity.
Qed.
Lemma m_labels : forall alpha n k,
  labels alpha n k = map (to_string alpha n k) (arange (m_n_labels n k))
  /\ (forall stopf rows, count_kmers_flat_with stopf n k rows = bincount (m_n_labels n k) (concat (get_kmers_with stopf n k rows)))
  /\ (forall stopf rows, count_kmers_rows_with stopf n k rows = map (bincount (m_n_labels n k)) (get_kmers_with stopf n k rows)).
Proof. repeat split; reflexivity. Qed.
(* Minimizers(window_size - k + 1, KmerEncoder(k)) rolls a window of exactly window_size letters, which is the
   window get_minimizers_with rolls over the flat data *)
Lemma m_minimizer_window : forall W k, m_min_window (m_min_n_kmers W k) k = W.
Proof. bridge. Qed.
(* each pass of the accumulation loop adds column[seq[offset:]], which has size - offset entries, onto a prefix *)
Lemma m_pwm_pass : forall (c : list Z) cs seq scores,
  pwm_acc (c :: cs) seq scores = pwm_acc cs (tl seq) (add_prefix scores (map (nthZ c) seq)).
Proof. reflexivity. Qed.
Lemma m_pwm_len : forall (c : list Z) (seq : list Z) (offset : nat), (offset <= length seq)%nat ->
  len (map (nthZ c) (skipn offset seq)) = m_pwm_acc_len (len seq) (Z.of_nat offset).
Proof. intros. unfold m_pwm_acc_len, len. rewrite map_length, skipn_length. lia. Qed.

(* ---- the conjunction exported as Props.C13_source_tie *)
Theorem source_tie :
  (forall w, gen_stop_rollable w = stop_of w /\ gen_stop_convolution w = stop_of w
             /\ gen_stop_motif w = stop_of w /\ gen_stop_util w = stop_of w)
  /\ (forall n k j, gen_kmer_weight n k j = m_kmer_weight n j /\ gen_encode_weight_str n k j = m_kmer_weight n j
                    /\ gen_encode_weight_list n k j = m_kmer_weight n j)
  /\ gen_kmer_call_is_dot = true
  /\ (forall n, gen_get_kmers_packed_test n = m_packed_test n /\ gen_to_string_packed_test n = m_packed_test n)
  /\ (forall n h k j, gen_to_string_digit4 h k j = m_digit4 h j /\ gen_to_string_digit n h k j = m_digit n h j)
  /\ (forall n k, gen_n_labels n k = m_n_labels n k)
  /\ (forall W k, gen_minimizer_n_kmers W k = m_min_n_kmers W k /\ gen_minimizer_window W k = m_min_window W k
                  /\ m_min_window (m_min_n_kmers W k) k = W)
  /\ (forall size offset, gen_pwm_acc_stop size offset = m_pwm_acc_len size offset /\ gen_pwm_seq_start size offset = offset)
  /\ (forall n k win, powers n k = map (m_kmer_weight n) (arange k)
                      /\ hash_generic n k win = dot win (map (m_kmer_weight n) (arange k))
                      /\ encode_kmer n k win = dot win (map (m_kmer_weight n) (arange k)))
  /\ (forall stopf n k rows, get_kmers_with stopf n k rows =
         if m_packed_test n then rewrap_trim (stopf k) 0 (map len rows) (kmers_packed k (concat rows))
         else rolling_with stopf (hash_generic n k) k rows)
  /\ (forall n k h, decode_kmer n k h = if m_packed_test n then map (m_digit4 h) (arange k) else map (m_digit n h) (arange k))
  /\ (forall alpha n k, labels alpha n k = map (to_string alpha n k) (arange (m_n_labels n k))).
Proof.
  repeat split; intros;
    first [ apply b_stop_rollable | apply b_stop_convolution | apply b_stop_motif | apply b_stop_util
          | apply b_kmer_weight | apply b_encode_weight_str | apply b_encode_weight_list | apply b_kmer_call_is_dot
          | apply b_get_kmers_packed_test | apply b_to_string_packed_test | apply b_to_string_digit4
          | apply b_to_string_digit | apply b_n_labels | apply b_minimizer_n_kmers | apply b_minimizer_window
          | apply m_minimizer_window | apply b_pwm_acc_stop | apply b_pwm_seq_start | apply m_decode | reflexivity ].
Qed.

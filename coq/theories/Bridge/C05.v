(* Bridge/C05.v — (a) the decision rules regenerated from /repo on this run (Gen/C05.v, written by
   translate/gen_c05.py from lazybnpdataclass.py and npdataclassreader.py) are the rules named in Model/C05.v;
   (b) the functions of Model/C05.v — the ones the theorems of Props/C05.v are about and the correspondence
   evaluates — do exactly what those rules prescribe.  A changed lookup order, a store that is no longer indexed /
   copied / dropped, a changed any/all rule in np.concatenate, a changed pass-through test in get_buffer or a changed
   laziness condition makes (a) fail (or Gen/C05.v degrade to `unit`). *)
From Coq Require Import ZArith List Bool Arith Lia.
From BNP Require Import Base.Prims Model.C05 Proofs.C05 Gen.C05.
Import ListNotations.
Open Scope Z_scope.

Ltac bridge := intros; cbv beta delta [gen_getattr_source gen_get_field_parses_buffer gen_getitem_indexes_buffer
  gen_getitem_indexes_overlay gen_getitem_indexes_cache gen_getitem_scalar_row gen_itemgetter_getitem_resets_start_line
  gen_replace_into_overlay gen_replace_new_overrides_old gen_replace_keeps_cache gen_data_object_reads_all_fields_in_order
  gen_concat_stays_lazy gen_concat_requires_all_lazy gen_concat_fallback_materialises_lazy_only gen_concat_column_source gen_concat_set_key gen_concat_cache_key
  gen_get_buffer_path gen_write_column_source gen_write_columns_in_field_order gen_should_be_lazy
  m_getattr_source m_get_field_parses_buffer m_getitem_indexes_buffer m_getitem_indexes_overlay m_getitem_indexes_cache
  m_getitem_scalar_row m_itemgetter_getitem_resets_start_line m_replace_into_overlay m_replace_new_overrides_old
  m_replace_keeps_cache m_data_object_reads_all_fields_in_order m_concat_stays_lazy m_concat_requires_all_lazy m_concat_fallback_materialises_lazy_only
  m_concat_column_source m_concat_set_key m_concat_cache_key m_get_buffer_path m_write_column_source
  m_write_columns_in_field_order m_should_be_lazy] zeta;
  repeat match goal with b : bool |- _ => destruct b end; reflexivity.

(* ---------- (a) generated = model ---------- *)
Lemma b_getattr_source : forall a b c, gen_getattr_source a b c = m_getattr_source a b c.
Proof. bridge. Qed.
Lemma b_get_field_parses_buffer : gen_get_field_parses_buffer = m_get_field_parses_buffer.
Proof. bridge. Qed.
Lemma b_getitem :
  gen_getitem_indexes_buffer = m_getitem_indexes_buffer /\ gen_getitem_indexes_overlay = m_getitem_indexes_overlay
  /\ gen_getitem_indexes_cache = m_getitem_indexes_cache /\ gen_getitem_scalar_row = m_getitem_scalar_row.
Proof. repeat split; bridge. Qed.
Lemma b_itemgetter_getitem : gen_itemgetter_getitem_resets_start_line = m_itemgetter_getitem_resets_start_line.
Proof. bridge. Qed.
Lemma b_replace :
  gen_replace_into_overlay = m_replace_into_overlay /\ gen_replace_new_overrides_old = m_replace_new_overrides_old
  /\ gen_replace_keeps_cache = m_replace_keeps_cache.
Proof. repeat split; bridge. Qed.
Lemma b_data_object : gen_data_object_reads_all_fields_in_order = m_data_object_reads_all_fields_in_order.
Proof. bridge. Qed.
Lemma b_concat_path : forall a b, gen_concat_stays_lazy a b = m_concat_stays_lazy a b.
Proof. bridge. Qed.
Lemma b_concat_requires_all_lazy : gen_concat_requires_all_lazy = m_concat_requires_all_lazy.
Proof. bridge. Qed.
Lemma b_concat_fallback : gen_concat_fallback_materialises_lazy_only = m_concat_fallback_materialises_lazy_only.
Proof. bridge. Qed.
Lemma b_concat_column_source : forall a b, gen_concat_column_source a b = m_concat_column_source a b.
Proof. bridge. Qed.
Lemma b_concat_set_key : forall a, gen_concat_set_key a = m_concat_set_key a.
Proof. bridge. Qed.
Lemma b_concat_cache_key : forall a b, gen_concat_cache_key a b = m_concat_cache_key a b.
Proof. bridge. Qed.
Lemma b_get_buffer_path : forall a b c d e f, gen_get_buffer_path a b c d e f = m_get_buffer_path a b c d e f.
Proof. bridge. Qed.
Lemma b_write_column : forall a, gen_write_column_source a = m_write_column_source a.
Proof. bridge. Qed.
Lemma b_write_order : gen_write_columns_in_field_order = m_write_columns_in_field_order.
Proof. bridge. Qed.
Lemma b_should_be_lazy : forall a b c d e f, gen_should_be_lazy a b c d e f = m_should_be_lazy a b c d e f.
Proof. bridge. Qed.

(* ---------- (b) the model's functions follow the rules ---------- *)
Definition col_of (f : nat) (st : store) : list value := match lookup f st with Some c => c | None => [] end.

(* __getattr__ of a field: overlay, else cache, else parse (and cache under the same name) *)
Lemma s_l_get : forall F f l,
  l_get F f l =
  match m_getattr_source (has f (l_set l)) true (has f (l_comp l)) with
  | 0 => Some (col_of f (l_set l), l)
  | 2 => Some (col_of f (l_comp l), l)
  | _ => if sid_fail F l f then None
         else Some (parse_col F f (l_buf l),
                    {| l_buf := l_buf l; l_set := l_set l; l_comp := l_comp l ++ [(f, parse_col F f (l_buf l))] |})
  end.
Proof.
  intros. unfold l_get, m_getattr_source, has, col_of.
  destruct (lookup f (l_set l)); [reflexivity|]. destruct (lookup f (l_comp l)); reflexivity.
Qed.
(* column() of np.concatenate (and every non-caching read): overlay, else cache, else parse *)
Lemma s_l_col : forall F l f,
  l_col F l f =
  match m_concat_column_source (has f (l_set l)) (has f (l_comp l)) with
  | 0 => col_of f (l_set l)
  | 2 => col_of f (l_comp l)
  | _ => parse_col F f (l_buf l)
  end.
Proof.
  intros. unfold l_col, m_concat_column_source, has, col_of.
  destruct (lookup f (l_set l)); [reflexivity|]. destruct (lookup f (l_comp l)); reflexivity.
Qed.
(* __getitem__: the same selection on buffer, overlay and cache; the scalar path takes row 0 of self[[i]] *)
Lemma s_l_index : forall sel l,
  l_buf (l_index sel l) = (if m_getitem_indexes_buffer then takeN dr sel (l_buf l) else l_buf l)
  /\ l_set (l_index sel l) = (if m_getitem_indexes_overlay then map (fun p => (fst p, takeN dv sel (snd p))) (l_set l) else l_set l)
  /\ l_comp (l_index sel l) = (if m_getitem_indexes_cache then map (fun p => (fst p, takeN dv sel (snd p))) (l_comp l) else l_comp l).
Proof. intros. repeat split. Qed.
Lemma s_at : forall cc F hdr l i sel,
  f_ragged F = false ->
  resolve (length (l_buf l)) (ITake [i]) = Some sel ->
  snd (m_step cc F hdr [TLazy l] (OAt 0 i)) = XRow (nth (Z.to_nat m_getitem_scalar_row) (l_rows F (l_index sel l)) []).
Proof. intros cc F hdr l i sel HR H. cbn [m_step nth_error t_len]. rewrite H, HR. reflexivity. Qed.
(* __replace__: the new column lands in the overlay and wins over an older one, other overlay columns stay, the cache goes *)
Lemma s_l_replace : forall f vals l,
  l_buf (l_replace f vals l) = l_buf l
  /\ l_comp (l_replace f vals l) = (if m_replace_keeps_cache then l_comp l else [])
  /\ lookup f (l_set (l_replace f vals l)) = (if m_replace_into_overlay && m_replace_new_overrides_old then Some vals else lookup f (l_set l))
  /\ (forall g, g <> f -> lookup g (l_set (l_replace f vals l)) = lookup g (l_set l)).
Proof.
  intros. repeat split.
  - change (l_set (l_replace f vals l)) with (update f vals (l_set l)). rewrite lookup_update, Nat.eqb_refl. reflexivity.
  - intros g Hg. change (l_set (l_replace f vals l)) with (update f vals (l_set l)). rewrite lookup_update.
    destruct (Nat.eqb g f) eqn:E; [apply Nat.eqb_eq in E; contradiction|reflexivity].
Qed.
(* get_data_object / tolist: every field in dataclass order through __getattr__ *)
Lemma s_data_object : forall cc F hdr l,
  m_data_object_reads_all_fields_in_order = true ->
  all_fields F = seq 0 (nfields F)
  /\ fst (m_step cc F hdr [TLazy l] (OTolist 0)) = [TLazy (snd (l_fill F (seq 0 (nfields F)) l))].
Proof.
  intros. split; [reflexivity|]. cbn [m_step nth_error]. unfold all_fields.
  destruct (l_fill F (seq 0 (nfields F)) l). reflexivity.
Qed.
(* np.concatenate: which names go to the overlay / stay in the cache, and where their columns come from *)
Lemma keys_map (g : nat -> list value) ks : keys (map (fun f => (f, g f)) ks) = ks.
Proof. unfold keys. rewrite map_map. simpl. apply map_id. Qed.
Lemma s_l_concat : forall F first rest l',
  l_concat F (first :: rest) = Some l' ->
  let ls := first :: rest in
  keys (l_set l') = filter (fun f => m_concat_set_key (existsb (fun l => has f (l_set l)) ls)) (all_fields F)
  /\ keys (l_comp l') = filter (fun f => m_concat_cache_key (existsb (fun l => has f (l_set l)) ls)
                                                             (forallb (fun l => has f (l_comp l)) ls)) (keys (l_comp first))
  /\ (forall f c, lookup f (l_set l') = Some c -> c = concat (map (fun l => l_col F l f) ls))
  /\ l_buf l' = concat (map l_buf ls).
Proof.
  intros F first rest l' H ls. unfold l_concat in H. fold ls in H.
  destruct (concat_parse_fails F ls); [discriminate|]. inversion H. clear H. cbn [l_set l_comp l_buf].
  rewrite !keys_map. unfold m_concat_set_key, m_concat_cache_key. repeat split.
  intros f c Hc. rewrite lookup_map_keys in Hc. destruct (existsb (Nat.eqb f) _); [|discriminate]. inversion Hc. reflexivity.
Qed.
Lemma all_lazy_map ls : all_lazy (map TLazy ls) = Some ls.
Proof. induction ls as [|l ls IH]; simpl; [reflexivity|]. rewrite IH. reflexivity. Qed.
Definition is_lazy (t : table) : bool := match t with TLazy _ => true | TEager _ => false end.
Lemma all_lazy_is ts : forallb is_lazy ts = match all_lazy ts with Some _ => true | None => false end.
Proof. induction ts as [|[l|t] ts IH]; simpl; [reflexivity| |reflexivity]. rewrite IH. destruct (all_lazy ts); reflexivity. Qed.
(* the current concatenate (t_concat6, after fix-5): lazy result iff every operand is lazy and the class has `concatenate`;
   otherwise the data objects — of the lazy operands only, the materialised ones as they are — are concatenated *)
Lemma s_t_concat : forall cc F ls, ls <> [] ->
  t_concat6 cc F (map TLazy ls) =
  if m_concat_stays_lazy (forallb is_lazy (map TLazy ls)) (f_concat F) then option_map TLazy (cc F ls)
  else if forallb (fun l => fst (l_fill F (all_fields F) l)) ls then Some (TEager (concat (map (l_rows F) ls))) else None.
Proof.
  intros cc F ls H. rewrite all_lazy_is. unfold t_concat6, m_concat_stays_lazy. destruct ls as [|l ls]; [contradiction|].
  change (map TLazy (l :: ls)) with (TLazy l :: map TLazy ls) at 1.
  cbv iota. rewrite (all_lazy_map (l :: ls)). reflexivity.
Qed.
Lemma s_t_concat_mixed : forall cc F ts,
  ts <> [] -> forallb is_lazy ts = false ->
  m_concat_stays_lazy (forallb is_lazy ts) (f_concat F) = false
  /\ t_concat6 cc F ts =
     (if negb m_concat_requires_all_lazy && m_concat_fallback_materialises_lazy_only
      then (if forallb (t_fill_ok F) ts then Some (TEager (concat (map (t_rows F) ts))) else None) else None).
Proof.
  intros cc F ts Hne H. rewrite H. split; [reflexivity|]. rewrite all_lazy_is in H.
  unfold t_concat6. destruct ts as [|t ts]; [contradiction|]. destruct (all_lazy (t :: ts)); [discriminate|]. reflexivity.
Qed.
(* the write after fix-4: header, nothing more for an empty table, else pass-through or the joined text columns *)
Lemma s_l_write6 : forall F hdr l,
  l_buf l <> [] ->
  l_write6 F hdr l = hdr ++
    match m_get_buffer_path true false false (match l_set l with [] => false | _ => true end) true true with
    | 2 => concat (map r_raw (l_buf l))
    | 4 => concat (map (join_fields (f_layout F)) (rows_of_cols [] (length (l_buf l)) (map (text_col F l) (all_fields F))))
    | _ => []
    end.
Proof.
  intros F hdr l Hb. unfold l_write6. destruct (l_buf l) eqn:E; [contradiction|].
  destruct (l_set l); reflexivity.
Qed.
(* get_buffer on a buffer class with text access, no SKIP_LAZY, writing to the same class, modified writes supported *)
Lemma s_l_write : forall F hdr l,
  l_buf l <> [] -> existsb (fun f => existsb (Nat.eqb f) (f_nowrite F)) (keys (l_set l)) = false ->
  l_write F hdr l = Some (hdr ++
    match m_get_buffer_path true false false (match l_set l with [] => false | _ => true end) true true with
    | 2 => concat (map r_raw (l_buf l))
    | 4 => concat (map (join_fields (f_layout F)) (rows_of_cols [] (length (l_buf l)) (map (text_col F l) (all_fields F))))
    | _ => []
    end).
Proof.
  intros F hdr l Hb Hn. unfold l_write. destruct (l_buf l) eqn:E; [contradiction|]. rewrite Hn.
  destruct (l_set l); reflexivity.
Qed.
Lemma s_text_col : forall F l f,
  m_write_columns_in_field_order = true ->
  text_col F l f = match m_write_column_source (has f (l_set l)) with
                   | 0 => map (print (kind_of F f)) (col_of f (l_set l))
                   | _ => map (field f) (l_buf l)
                   end.
Proof. intros. unfold text_col, m_write_column_source, has, col_of. destruct (lookup f (l_set l)); reflexivity. Qed.
(* the harness opens with lazy=True / lazy=False on buffer classes that have get_field_by_number and a dataclass
   other than GTF: the chunk is lazy exactly in the first run, whatever config.LAZY is *)
Lemma s_should_be_lazy : forall cfg,
  m_should_be_lazy cfg false false true true false = true /\ m_should_be_lazy cfg false true true true false = false.
Proof. intros. destruct cfg; split; reflexivity. Qed.

(* ---------- round 6, part 2: sort_by ---------- *)
Lemma b_sort_by :
  gen_sort_by_key_through_getattr = m_sort_by_key_through_getattr /\ gen_sort_by_text_key_bytewise = m_sort_by_text_key_bytewise
  /\ gen_sort_by_stable = m_sort_by_stable /\ gen_sort_by_indexes_self = m_sort_by_indexes_self.
Proof. repeat split. Qed.
(* the model's sort_by on a lazy table: the key through l_get (= __getattr__: overlay, cache, else parse AND cache), the
   stable argsort of it, then l_index (= __getitem__) on the table that now holds the cached key *)
Lemma s_sort_by : forall cc F hdr l f,
  m_sort_by_key_through_getattr && m_sort_by_stable && m_sort_by_indexes_self = true ->
  m_xstep cc F hdr [TLazy l] (XSortBy 0 f) =
  match l_get F f l with
  | Some (c, l') => ([TLazy (l_index (argsort c) l')], XOk)
  | None => ([TLazy l], XErr)
  end.
Proof. intros. cbn [m_xstep nth_error]. destruct (l_get F f l) as [[c l']|]; reflexivity. Qed.
(* bytewise order of text keys: a proper prefix first, else the first differing byte decides *)
Lemma s_text_key_order : forall a b x y,
  m_sort_by_text_key_bytewise = true ->
  lex_leb [] b = true /\ lex_leb (x :: a) [] = false
  /\ (x < y -> lex_leb (x :: a) (y :: b) = true) /\ (y < x -> lex_leb (x :: a) (y :: b) = false)
  /\ lex_leb (x :: a) (x :: b) = lex_leb a b.
Proof.
  intros a b x y _. repeat split; try reflexivity.
  - intros H. simpl. apply Z.ltb_lt in H. rewrite H. reflexivity.
  - intros H. simpl. assert (x <? y = false) by (apply Z.ltb_ge; lia). rewrite H0. apply Z.ltb_lt in H. rewrite H. reflexivity.
  - simpl. rewrite Z.ltb_irrefl. reflexivity.
Qed.

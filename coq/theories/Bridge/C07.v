(* Bridge/C07.v — the arithmetic and the statement shapes regenerated from /repo (Gen/C07.v: strops.join / split /
   str_equal / _str_equal_two_encoded_ragged_arrays, util/ragged_slice.py, string_array.py) are what the model the
   theorems of Props/C07.v are about uses (Model/C07.v).  Re-checked on every run; a changed offset, bound, comparison
   or statement in the source makes one of these fail. *)
From Coq Require Import ZArith Lia List Bool.
From Coq Require String.
From BNP Require Import Base.Prims Base.PrimsFacts Model.C07 Gen.C07.
Import ListNotations.
Open Scope Z_scope.

Ltac bridge := intros; cbv beta delta [gen_join_new_len gen_join_body_len gen_join_sep_pos gen_join_drop
  gen_split_first_len gen_split_forced_index gen_split_row_len gen_streq_mask gen_streq2_mask gen_streq_index
  m_join_new_len m_join_body_len m_join_sep_pos m_join_drop m_split_first_len m_split_forced_index m_split_row_len
  m_streq_mask m_streq_index] zeta;
  first [reflexivity | ring | lia].

Lemma b_join_new_len : forall l, gen_join_new_len l = m_join_new_len l.
Proof. bridge. Qed.
Lemma b_join_body_len : forall l, gen_join_body_len l = m_join_body_len l.
Proof. bridge. Qed.
Lemma b_join_sep_pos : forall s l, gen_join_sep_pos s l = m_join_sep_pos s l.
Proof. bridge. Qed.
Lemma b_join_drop : forall k, gen_join_drop k = m_join_drop k.
Proof. bridge. Qed.
Lemma b_split_first_len : forall i0, gen_split_first_len i0 = m_split_first_len i0.
Proof. bridge. Qed.
Lemma b_split_forced_index : gen_split_forced_index = m_split_forced_index.
Proof. bridge. Qed.
Lemma b_split_row_len : forall l, gen_split_row_len l = m_split_row_len l.
Proof. bridge. Qed.
Lemma b_split_lens_src : gen_split_lens_src = m_split_lens_src.
Proof. reflexivity. Qed.
Lemma b_streq_mask : forall l L, gen_streq_mask l L = m_streq_mask l L.
Proof. bridge. Qed.
Lemma b_streq2_mask : forall la lb, gen_streq2_mask la lb = m_streq_mask la lb.
Proof. bridge. Qed.
Lemma b_streq_index : forall st k, gen_streq_index st k = m_streq_index st k.
Proof. bridge. Qed.
Lemma b_streq_refine_src : gen_streq_refine_src = m_streq_refine_src.
Proof. reflexivity. Qed.
Lemma b_streq2_refine_src : gen_streq2_refine_src = m_streq2_refine_src.
Proof. reflexivity. Qed.
Lemma b_rslice_call_src : gen_rslice_call_src = m_rslice_call_src.
Proof. reflexivity. Qed.
Lemma b_sarr_pad_side : gen_sarr_pad_side = m_sarr_pad_side.
Proof. reflexivity. Qed.
Lemma b_sarr_empty_guard_src : gen_sarr_empty_guard_src = m_sarr_empty_guard_src.
Proof. reflexivity. Qed.

(* the two constants the model does not mention by name are what its list operations do:
   set_last writes at index len + m_split_forced_index, removelast leaves m_split_row_len (len r) elements *)
Lemma set_last_is_forced_index {A} (v d : A) : forall l, l <> [] ->
  nth (Z.to_nat (len l + m_split_forced_index)) (set_last v l) d = v.
Proof.
  induction l as [|x l IH]; intros H; [congruence|].
  destruct l as [|y l]; [reflexivity|].
  change (set_last v (x :: y :: l)) with (x :: set_last v (y :: l)).
  unfold m_split_forced_index in *. rewrite len_cons.
  replace (Z.to_nat (1 + len (y :: l) + -1)) with (S (Z.to_nat (len (y :: l) + -1)))
    by (rewrite len_cons; pose proof (len_nonneg l); lia).
  simpl nth. apply IH. discriminate.
Qed.
Lemma removelast_is_row_len {A} : forall (r : list A), r <> [] -> len (removelast r) = m_split_row_len (len r).
Proof.
  intros r H. destruct (exists_last H) as [r' [x E]]. subst r. rewrite removelast_last.
  unfold m_split_row_len, len. rewrite app_length. simpl. lia.
Qed.

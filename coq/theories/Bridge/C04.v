(* Bridge/C04.v — the arithmetic regenerated from /repo (Gen/C04.v: io/file_buffers.py TextThroughputExtractor,
   io/bam.py BamBufferExtractor, io/delimited_buffers.py _get_buffer_extractor, io/buffers/sam.py join_fields) is the
   arithmetic the theorems of Props/C04.v are about (Model/C04.v).  Re-checked on every run; a changed offset, slice,
   operand, indexed array or statement order in the source makes one of these fail. *)
From Coq Require Import ZArith List Bool Lia.
From BNP Require Import Base.Prims Model.C04 Gen.C04 Proofs.C04.
Import ListNotations.
Open Scope Z_scope.

Ltac bridge := intros; cbv beta delta [gen_mc_len gen_mc_new_starts gen_mc_offset gen_mc_offset_operand gen_mc_entry_starts
  gen_mc_entry_ends gen_mc_field_start gen_mc_ravel_view gen_cat_offsets gen_cat_field_start gen_cat_entry_start
  gen_cat_entry_end gen_cat_contiguous gen_range_len gen_range_len_sep gen_bam_mc_len gen_bam_gather_view
  gen_delim_field_start gen_delim_entry_end gen_sam_cell_ends
  gen_sam_drop_cell gen_sam_tag_first gen_sam_tag_step gen_sam_tag_empty
  m_rec_len m_new_starts m_offset m_rebase m_shift m_range_len m_delim_start m_delim_entry_end m_sam_cell_ends
  m_sam_drop_cell m_sam_tag_first m_sam_tag_empty insert0] zeta;
  first [reflexivity | ring | lia].

(* ---- one lemma per generated definition ---- *)
Lemma b_tte_getitem : forall sel x,
  gen_tte_getitem (fun m => takeA [] m sel) (fun l => takeA 0 l sel) (x_data x) (x_fs x) (x_fl x) (x_es x) (x_ee x)
  = ext_tuple (getitem sel x).
Proof. reflexivity. Qed.
Lemma b_mc_len : forall s e, gen_mc_len s e = m_rec_len s e. Proof. bridge. Qed.
Lemma b_mc_new_starts : forall lens, gen_mc_new_starts lens = m_new_starts lens. Proof. bridge. Qed.
Lemma b_mc_offset : forall es ns, gen_mc_offset es ns = m_offset es ns. Proof. bridge. Qed.
Lemma b_mc_offset_operand : forall ns, gen_mc_offset_operand ns = removelast ns. Proof. bridge. Qed.
Lemma b_mc_entry_starts : forall ns, gen_mc_entry_starts ns = removelast ns. Proof. bridge. Qed.
Lemma b_mc_entry_ends : forall ns, gen_mc_entry_ends ns = tl ns. Proof. bridge. Qed.
Lemma b_mc_field_start : forall fs o, gen_mc_field_start fs o = m_rebase fs o. Proof. bridge. Qed.
Lemma b_mc_ravel_view : forall es lens, gen_mc_ravel_view es lens = (es, lens). Proof. bridge. Qed.
Lemma b_cat_offsets : forall sizes, gen_cat_offsets sizes = 0 :: cumsum sizes. Proof. bridge. Qed.
Lemma b_cat_field_start : forall v o, gen_cat_field_start v o = m_shift v o. Proof. bridge. Qed.
Lemma b_cat_entry_start : forall v o, gen_cat_entry_start v o = m_shift v o. Proof. bridge. Qed.
Lemma b_cat_entry_end : forall v o, gen_cat_entry_end v o = m_shift v o. Proof. bridge. Qed.
Lemma b_cat_contiguous : forall xs, gen_cat_contiguous (map x_contig xs) = forallb x_contig xs.
Proof. intros. unfold gen_cat_contiguous. induction xs; simpl; congruence. Qed.
Lemma b_range_len : forall e s, gen_range_len e s false = m_range_len e s. Proof. bridge. Qed.
Lemma b_range_len_sep : forall e s, gen_range_len e s true = e - s. Proof. bridge. Qed.
Lemma b_bam_getitem : forall sel x,
  gen_bam_getitem (fun m => takeA [] m sel) (fun l => takeA 0 l sel) (x_data x) (x_es x) (x_ee x)
  = (x_data (getitem sel x), x_es (getitem sel x), x_ee (getitem sel x), x_contig (getitem sel x)).
Proof. reflexivity. Qed.
Lemma b_bam_mc_len : forall s e, gen_bam_mc_len s e = m_rec_len s e. Proof. bridge. Qed.
Lemma b_bam_gather_view : forall nl lens, gen_bam_gather_view nl lens = (nl, lens). Proof. bridge. Qed.
(* which extractor compacts itself in place when written, which one only gathers the bytes *)
Lemma b_mc_inplace : gen_mc_inplace = inplace_compaction (FDelim 0) /\ gen_mc_inplace = inplace_compaction FSam
  /\ gen_mc_inplace = inplace_compaction FFastq /\ gen_mc_inplace = inplace_compaction FFasta.
Proof. repeat split. Qed.
Lemma b_bam_mc_inplace : gen_bam_mc_inplace = inplace_compaction FBam. Proof. reflexivity. Qed.
Lemma b_delim_field_start : forall d, gen_delim_field_start d = m_delim_start d. Proof. bridge. Qed.
Lemma b_delim_entry_end : forall e, gen_delim_entry_end e = m_delim_entry_end e. Proof. bridge. Qed.
(* the statement order in _get_buffer_extractor decides which variant of the model is the current one *)
Lemma b_delim_entry_ends_before_cr : gen_delim_entry_ends_before_cr = v_crlf current.
Proof. reflexivity. Qed.
Lemma b_sam_cell_ends : forall l, gen_sam_cell_ends l = m_sam_cell_ends l. Proof. bridge. Qed.
Lemma b_sam_drop_cell : forall r n, gen_sam_drop_cell r n = m_sam_drop_cell r n. Proof. bridge. Qed.
Lemma b_sam_tag_first : forall n, gen_sam_tag_first n = m_sam_tag_first n. Proof. bridge. Qed.
Lemma b_sam_tag_step : forall n, gen_sam_tag_step n = n. Proof. bridge. Qed.
Lemma b_sam_tag_empty : forall l, gen_sam_tag_empty l = m_sam_tag_empty l. Proof. bridge. Qed.

(* SAM extractor (since /repo 6bbd290): entry ends before the carriage-return adjustment; the tags stop at the line break or
   at the carriage return before it *)
Lemma b_sam_entry_end : forall e, gen_sam_entry_end e = e + 1. Proof. reflexivity. Qed.
Lemma b_sam_entry_ends_before_cr : gen_sam_entry_ends_before_cr = true. Proof. reflexivity. Qed.
Definition gen_extra_end (data : list Z) (e : Z) : Z :=
  let e0 := gen_sam_extra_end0 e in
  e0 - (if nthZ data (gen_sam_extra_probe e0) =? gen_sam_extra_cr_char then 1 else 0).
Lemma b_sam_extra_end : forall data e, gen_extra_end data e = extra_end data e. Proof. reflexivity. Qed.
Definition gen_sam_extra (x : ext) : list (list Z) :=
  let starts := zip_with (fun s l => gen_sam_extra_start (last0 s) (last0 l)) (x_fs x) (x_fl x) in
  extract x starts (zip_with (fun e st => gen_sam_extra_len (gen_extra_end (x_data x) e) st) (x_ee x) starts).
Lemma b_sam_extra : forall x, gen_sam_extra x = sam_extra x. Proof. reflexivity. Qed.

(* ---- the operations of the model, re-assembled from the regenerated formulas, ARE the model's operations ---- *)
Definition gen_make_contiguous (x : ext) : ext :=
  let lens := zip_with (fun e s => gen_mc_len s e) (x_ee x) (x_es x) in
  let new_starts := gen_mc_new_starts lens in
  let offsets := zip_with gen_mc_offset (x_es x) (gen_mc_offset_operand new_starts) in
  {| x_data := ragged_ravel (x_data x) (fst (gen_mc_ravel_view (x_es x) lens)) (snd (gen_mc_ravel_view (x_es x) lens));
     x_fs := zip_with (fun r o => map (fun s => gen_mc_field_start s o) r) (x_fs x) offsets;
     x_fl := x_fl x;
     x_es := gen_mc_entry_starts new_starts; x_ee := gen_mc_entry_ends new_starts; x_contig := true |}.
Lemma b_make_contiguous : forall x, gen_make_contiguous x = make_contiguous x.
Proof. reflexivity. Qed.

(* BAM: a write gathers the selected records' bytes in selection order — exactly the bytes the model writes — and
   (b_bam_mc_inplace) leaves the extractor as it is *)
Definition gen_bam_gather (x : ext) : list Z :=
  let lens := zip_with (fun e s => gen_bam_mc_len s e) (x_ee x) (x_es x) in
  ragged_ravel (x_data x) (fst (gen_bam_gather_view (x_es x) lens)) (snd (gen_bam_gather_view (x_es x) lens)).
Lemma b_bam_gather : forall x, gen_bam_gather x = x_data (make_contiguous x).
Proof. reflexivity. Qed.
Lemma b_bam_write : forall v x, x_contig x = false -> write v FBam (SLazy x []) = Some (gen_bam_gather x).
Proof. intros v x H. simpl. unfold contiguous. rewrite H. reflexivity. Qed.
Lemma b_bam_touch : forall s, touch FBam s = s.
Proof. reflexivity. Qed.

Definition gen_concatenate (xs : list ext) : ext :=
  let offs := gen_cat_offsets (map (fun b => len (x_data b)) xs) in
  {| x_data := concat (map x_data xs);
     x_fs := concat (zip_with (fun b o => map (map (fun v => gen_cat_field_start v o)) (x_fs b)) xs offs);
     x_fl := concat (map x_fl xs);
     x_es := concat (zip_with (fun b o => map (fun v => gen_cat_entry_start v o) (x_es b)) xs offs);
     x_ee := concat (zip_with (fun b o => map (fun v => gen_cat_entry_end v o) (x_ee b)) xs offs);
     x_contig := gen_cat_contiguous (map x_contig xs) |}.
Lemma b_concatenate : forall xs, gen_concatenate xs = concatenate xs.
Proof.
  intros xs. unfold gen_concatenate, concatenate. rewrite b_cat_contiguous.
  change (gen_cat_offsets (map (fun b => len (x_data b)) xs)) with (offsets_of xs).
  f_equal; f_equal; apply zip_with_ext; intros b o; try (apply map_ext; intros r); try (apply map_ext; intros v);
    unfold gen_cat_field_start, gen_cat_entry_start, gen_cat_entry_end; lia.
Qed.

Definition gen_rest_of_line (j : Z) (x : ext) : list (list Z) :=
  let starts := col j (x_fs x) in
  extract x starts (zip_with (fun e s => gen_range_len e s false) (x_ee x) starts).
Lemma b_rest_of_line : forall j x, gen_rest_of_line j x = rest_of_line j x.
Proof.
  intros j x. unfold gen_rest_of_line, rest_of_line, vsub. f_equal.
  generalize (col j (x_fs x)). generalize (x_ee x).
  induction l as [|e es IH]; intros [|s ss]; simpl; auto. f_equal; auto.
Qed.

From BNP Require Import Base.PrimsFacts.
(* ---- OneLineBuffer.join_fields / FastQBuffer.join_fields (round 6) ----
   One output line per (entry, field): a buffer of  field_length + 1 + _line_offsets[i]  bytes; the field text from column
   _line_offsets[i] up to the last byte, the line feed in the last byte, the header character in column 0 of line 0 —
   read as: the line is [header] (when its offset leaves room for it: column gen_ol_header_col < offset) ++ text ++ [eol]. *)
Definition ol_line (hdr off : Z) (fld : list Z) : list Z :=
  (if gen_ol_header_col <? gen_ol_field_col off then [hdr] else []) ++ fld ++ [gen_ol_eol].
Definition ol_join_src (hdr : Z) (offs : list Z) (flds : list (list Z)) : list Z := concat (zip_with (ol_line hdr) offs flds).
Definition fq_fields_src (flds : list (list Z)) : list (list Z) :=
  firstn (Z.to_nat gen_fq_plus_pos) flds ++ [[gen_fq_plus_char]] ++ skipn (Z.to_nat gen_fq_plus_pos) flds.

(* the line has exactly the length the source allocates for it *)
Lemma b_ol_line_len : forall hdr off fld, (off = 0 \/ off = 1) ->
  len (ol_line hdr off fld) = gen_ol_line_add (gen_ol_line_len0 (len fld)) off.
Proof.
  intros hdr off fld [-> | ->]; unfold ol_line, gen_ol_line_add, gen_ol_line_len0, gen_ol_header_col, gen_ol_field_col.
  - change (0 <? 0) with false. cbv iota. rewrite !len_app. change (len [gen_ol_eol]) with 1. change (len (@nil Z)) with 0. lia.
  - change (0 <? 1) with true. cbv iota. rewrite !len_app. change (len [gen_ol_eol]) with 1. change (len [hdr]) with 1. lia.
Qed.
(* the model's rendering of a re-joined FASTQ / FASTA row IS the source's join with the class constants of this checkout *)
Lemma b_fq_join : forall v flds, length flds = 3%nat ->
  join_row v FFastq flds = ol_join_src gen_fq_header gen_fq_line_offsets (fq_fields_src flds).
Proof.
  intros v flds H. destruct flds as [|n [|s [|q [|? ?]]]]; try discriminate.
  unfold join_row, ol_join_src, fq_fields_src, ol_line. change (Z.to_nat gen_fq_plus_pos) with 2%nat. cbn. rewrite <- ?app_assoc. reflexivity.
Qed.
Lemma b_fa_join : forall v flds, length flds = 2%nat ->
  join_row v FFasta flds = ol_join_src gen_fa_header gen_fa_line_offsets flds.
Proof.
  intros v flds H. destruct flds as [|n [|s [|? ?]]]; try discriminate.
  unfold join_row, ol_join_src, ol_line. cbn. rewrite <- ?app_assoc. reflexivity.
Qed.
(* ... and the reader uses the same class constants *)
Lemma b_ol_read : forall v data,
  read v FFastq data = option_map (fun x => SLazy x []) (from_oneline gen_fq_n_lines gen_fq_line_offsets data)
  /\ read v FFasta data = option_map (fun x => SLazy x []) (from_oneline gen_fa_n_lines gen_fa_line_offsets data).
Proof. intros; split; reflexivity. Qed.

(* Bridge/C19.v — (a) the decision rules regenerated from /repo on this run (Gen/C19.v, written by
   translate/gen_c19.py from bnpdataclass.py and string_array.py) are the rules named m_… in Model/C19.v;
   (b) the model functions the theorems of Props/C19.v are about — and the correspondence evaluates — behave as those
   rules say.  A changed condition, a re-ordered type test, a dropped guard, another separator or padding side makes
   (a) fail to compile (or Gen/C19.v degrade to `unit`). *)
From Coq Require Import String.
From Coq Require Import ZArith List Bool Lia.
From BNP Require Import Base.Prims Base.PrimsFacts Model.C19 Proofs.C19 Proofs.C19_rows Gen.C19.
Import ListNotations.
Open Scope Z_scope.

Ltac bridge := intros; cbv beta delta [gen_from_rows_transposes gen_from_rows_empty_rule gen_sort_key_rule gen_sort_stable
  gen_dispatch gen_empty_dtype_rule gen_int_magnitude_rule m_int_magnitude_rule fix8_int_magnitude gen_flat_check_raises gen_nested_converts_rows gen_add_name_raises
  gen_same_type_check_skips_empty gen_add_type_rule gen_add_empty_typed_raises gen_dict_join gen_dict_split
  gen_sa_length gen_sa_pads_right gen_sa_width_from_encoded
  m_from_rows_transposes m_from_rows_empty_rule m_sort_key_rule m_sort_stable m_dispatch m_empty_dtype_rule
  m_flat_check_raises m_nested_converts_rows m_add_name_raises m_add_empty_typed_raises m_dict_join m_dict_split
  m_sa_length m_sa_pads_right m_sa_width_from_encoded dot len
  fix1_from_rows_empty fix2_from_rows_nested fix3_add_empty fix4_sort_strings fix5_empty_dtype fix6_flat_cells] zeta;
  repeat match goal with b : bool |- _ => destruct b end;
  first [reflexivity | simpl; reflexivity | simpl; lia].

(* ---------- (a) generated = model ---------- *)
Lemma b_from_rows_transposes : gen_from_rows_transposes = m_from_rows_transposes. Proof. bridge. Qed.
Lemma b_from_rows_empty_rule : gen_from_rows_empty_rule = m_from_rows_empty_rule. Proof. bridge. Qed.
(* the body of from_entry_tuples mentions its Iterable argument exactly as often as the model assumes (once: no traversal
   before the transposing zip), so a one-shot iterator is consumed by the zip and by nothing else *)
Lemma b_from_rows_argument_uses : gen_from_rows_argument_uses = m_from_rows_argument_uses. Proof. reflexivity. Qed.
Lemma b_from_rows_no_pre_traversal : m_from_rows_pre_traversals = Z.to_nat (gen_from_rows_argument_uses - 1) /\ m_from_rows_pre_traversals = 0%nat.
Proof. split; reflexivity. Qed.
Lemma b_sort_key_rule : forall is_era is_sa, gen_sort_key_rule is_era is_sa = m_sort_key_rule fix4_sort_strings is_era is_sa.
Proof. bridge. Qed.
Lemma b_sort_stable : gen_sort_stable = m_sort_stable. Proof. bridge. Qed.
Lemma b_dispatch : gen_dispatch = m_dispatch. Proof. bridge. Qed.
Lemma b_empty_dtype_rule : forall a b c d, gen_empty_dtype_rule a b c d = m_empty_dtype_rule fix5_empty_dtype a b c d.
Proof. bridge. Qed.
Lemma b_int_magnitude_rule : forall a b c d e f g,
  gen_int_magnitude_rule a b c d e f g = m_int_magnitude_rule fix8_int_magnitude a b c d e f g.
Proof. bridge. Qed.
Lemma b_flat_check_raises : forall a b c, gen_flat_check_raises a b c = m_flat_check_raises fix6_flat_cells a b c.
Proof. bridge. Qed.
Lemma b_nested_converts_rows : gen_nested_converts_rows = m_nested_converts_rows. Proof. bridge. Qed.
Lemma b_add_name_raises : forall a, gen_add_name_raises a = m_add_name_raises a. Proof. bridge. Qed.
Lemma b_add_empty_typed_raises : gen_add_empty_typed_raises = m_add_empty_typed_raises. Proof. bridge. Qed.
Lemma b_dict_join : forall name sub, gen_dict_join name sub = m_dict_join name sub. Proof. bridge. Qed.
Lemma b_dict_split : gen_dict_split = m_dict_split. Proof. bridge. Qed.
Lemma b_sa_length : forall row, gen_sa_length row = m_sa_length row. Proof. bridge. Qed.
Lemma b_sa_pads_right : gen_sa_pads_right = m_sa_pads_right. Proof. bridge. Qed.
Lemma b_sa_width_from_encoded : forall a w, gen_sa_width_from_encoded a w = m_sa_width_from_encoded a w. Proof. bridge. Qed.

(* ---------- (b) the model functions follow the named rules ---------- *)
Lemma from_rows_follows_rules sch r rows :
  m_from_rows sch [] = (if m_from_rows_empty_rule then m_empty fix5_empty_dtype sch else None)
  /\ m_from_rows sch (r :: rows)
     = (if has_nested sch && negb m_nested_converts_rows then None else m_from_rows_nonempty sch (r :: rows)).
Proof. split; reflexivity. Qed.

Definition is_era (b : bcol) : bool := match b with ColRag RStr _ _ | ColRag RDna _ _ => true | _ => false end.
Definition is_sa (b : bcol) : bool := match b with ColPad _ _ => true | _ => false end.
Lemma sort_follows_key_rule fx4 f t b :
  nth_error t f = Some (CBase b) -> sort_key_pinned (CBase b) = None ->
  if m_sort_key_rule fx4 (is_era b) (is_sa b) =? 0 then m_sort_by_gen fx4 f t = None
  else exists ks, str_keys b = Some ks /\ m_sort_by_gen fx4 f t = Some (m_select (argsort_by lex_leb [] ks) t).
Proof.
  intros Hf Hk. unfold m_sort_by_gen. rewrite Hf, Hk. unfold m_sort_key_rule.
  destruct fx4; [|reflexivity].
  destruct b as [d v|[| |d] x l|w m|v]; simpl in *; try discriminate; try reflexivity; eexists; split; reflexivity.
Qed.

Lemma conversion_follows_dispatch fx5 fx6 k l c :
  bcol_of_cells_gen fx5 fx6 k l = Some c -> first_action m_dispatch (kind_test k) = Some (bcol_action c).
Proof.
  destruct k; simpl; intros H;
    repeat match type of H with
           | context [match ?x with Some _ => _ | None => _ end] => destruct x; try discriminate
           | context [if ?x then _ else _] => destruct x; try discriminate
           end; injection H as <-; reflexivity.
Qed.

Lemma empty_dtype_follows_rule fx5 k :
  kind_test k = "numeric"%string ->
  num_dt fx5 k [] = dt_of_rule (m_empty_dtype_rule fx5 true true (kind_int_or_bool k) (kind_bool k)).
Proof. destruct k, fx5; simpl; intros H; try discriminate; reflexivity. Qed.

(* a non-empty python-int list that NumPy would hold as float64 / object (neither all within int64 nor all within
   [2^63, 2^64)): the model's int_list_col does what the magnitude rule says *)
Lemma forallb_andb {A} (f g : A -> bool) l : forallb (fun x => f x && g x) l = forallb f l && forallb g l.
Proof.
  induction l as [|x l IH]; [reflexivity|]. simpl. rewrite IH.
  destruct (f x), (g x), (forallb f l), (forallb g l); reflexivity.
Qed.
Lemma forallb_impl {A} (f g : A -> bool) l : (forall x, f x = true -> g x = true) -> forallb f l = true -> forallb g l = true.
Proof. intros H. rewrite !forallb_forall. intros Hf x Hx. apply H. apply Hf. exact Hx. Qed.
Lemma int_list_follows_magnitude_rule k q qs :
  is_int_kind k = true ->
  let vs := map (fun z => z / 4) (q :: qs) in
  forallb fits_i64 vs = false -> forallb (fun v => (2 ^ 63 <=? v) && (v <? 2 ^ 64)) vs = false ->
  int_list_col true k (q :: qs)
  = if m_int_magnitude_rule true true true true true true (forallb (fun v => 0 <=? v) vs) (forallb (fun v => v <? 2 ^ 64) vs) =? 1
    then Some (ColNum DI (q :: qs)) else None.
Proof.
  intros Hk vs H1 H2. unfold int_list_col. fold vs. rewrite H1, H2.
  assert (Hk' : match k with KInt | KOpt => true | _ => false end = true) by (destruct k; simpl in Hk; congruence).
  rewrite Hk'.
  assert (Eu : forallb fits_u64 vs = forallb (fun v => 0 <=? v) vs && forallb (fun v => v <? 2 ^ 64) vs)
    by (apply (forallb_andb (fun v => 0 <=? v) (fun v => v <? 2 ^ 64))).
  unfold m_int_magnitude_rule.
  destruct (forallb (fun v => 0 <=? v) vs), (forallb (fun v => v <? 2 ^ 64) vs); rewrite Eu; cbn [andb negb Z.eqb];
    try (destruct (forallb (fun v => fits_i64 v || fits_u64 v) vs); reflexivity).
  rewrite (forallb_impl fits_u64 (fun v => fits_i64 v || fits_u64 v) vs); [reflexivity| |exact Eu].
  intros x Hx. rewrite Hx. apply orb_true_r.
Qed.

Lemma flat_check_follows_rule fx5 fx6 ss :
  m_flat_check_raises fx6 true true (negb (forallb (fun s => Nat.eqb (length s) 1) ss)) = true ->
  bcol_of_cells_gen fx5 fx6 KStrand (map MS ss) = None.
Proof.
  unfold m_flat_check_raises. simpl. intros H.
  assert (E : all_MS (map MS ss) = Some ss).
  { clear H. induction ss as [|s ss IH]; [reflexivity|].
    change (all_MS (map MS (s :: ss))) with (match all_MS (map MS ss) with Some r => Some (s :: r) | None => None end).
    rewrite IH. reflexivity. }
  rewrite E. destruct fx6; simpl in *; [|discriminate]. rewrite H. reflexivity.
Qed.

Lemma add_follows_empty_rule fx3 k t : negb fx3 = true -> m_add_gen fx3 k [] t = None.
Proof. intros H. unfold m_add_gen. simpl. rewrite H. reflexivity. Qed.

Lemma dict_split_inverts_join name sub :
  ~ In dot name -> split_dot (m_dict_join name sub) = (name, Some sub).
Proof. exact (split_dot_join name sub). Qed.

Lemma filter_nonzero_nulfree s : Forall (fun c => c <> 0) s -> filter (fun c => negb (c =? 0)) s = s.
Proof.
  induction 1 as [|c s Hc _ IH]; [reflexivity|]. simpl. apply Z.eqb_neq in Hc. rewrite Hc. simpl. rewrite IH. reflexivity.
Qed.
Lemma filter_nonzero_zeros k : filter (fun c => negb (c =? 0)) (repeat 0 k) = [].
Proof. induction k as [|k IH]; [reflexivity|]. simpl. exact IH. Qed.
(* lengths = count_nonzero gives the string lengths of right-padded NUL-free strings *)
Lemma sa_length_of_padded w s :
  Forall (fun c => c <> 0) s -> len s <= w -> m_sa_length (pad w s) = len s /\ m_sa_length (pad w s) = len (strip_nul (pad w s)).
Proof.
  intros Hs Hw. unfold m_sa_length. rewrite strip_pad, strip_nul_nulfree by assumption.
  rewrite pad_fits by assumption. rewrite filter_app, filter_nonzero_nulfree, filter_nonzero_zeros, app_nil_r by assumption.
  split; reflexivity.
Qed.

(* Bridge/C11.v — the loop conditions, slice bounds, counter updates, component-wise additions, change-point
   comparison, shortcut test, group bounds and buffer-index tests regenerated from /repo (Gen/C11.v, written by
   translate/gen_c11.py on every run) are the ones the model of Model/C11.v — and therefore the theorems of
   Props/C11.v — are about.  Sizes are `nat` in the model and Python ints in the source: those lemmas go through
   Z.of_nat; the graph nodes keep `idx = _buffer_index + 1` in the model.  Each lemma is proved by one fixed cascade. *)
From Coq Require Import String ZArith List Bool Lia Arith.
From BNP Require Import Base.Prims Base.PrimsFacts Model.C11 Gen.C11.
Import ListNotations.
Open Scope Z_scope.

Ltac unfold_kernels := cbv beta delta [
  gen_ce_loop_cond gen_ce_size_in gen_ce_emit_stop gen_ce_carry_start gen_ce_size_after gen_ce_tail_cond
  gen_cl_loop_cond gen_cl_take_stop gen_cl_rest_start gen_cl_reset gen_cl_after
  gen_sum_and_n gen_br_cond gen_br_then_stop gen_br_else_stop gen_br_add gen_hr_total
  gen_mean_reduction gen_ac_equal_cond gen_ac_swap_cond gen_ac_prefix_stop gen_ac_tail_start gen_ac_add gen_gb_empty_test
  gen_add_hist_count gen_hist_reduction gen_sumred_none gen_sumred_axis0 gen_sumred_rows gen_sumred_axis0_cond
  gen_at_scalar_cond gen_at_add gen_at_else gen_cr_first gen_cr_second gen_bs_empty_cond gen_bs_empty_val
  gen_af_sum_axis gen_af_sum_func gen_af_sum_red
  gen_sn_assert gen_sn_advance gen_sn_next gen_cn_assert gen_cn_cached gen_cn_next
  gen_gc_changed_encoded gen_gc_changed_string gen_gc_changed_plain gen_gc_index
  gen_gb_fast_test gen_gb_fast_start gen_gb_insert_pos gen_gb_insert_val gen_gb_last_bound
  gen_gb_key_index gen_gb_slice_lo gen_gb_slice_hi gen_join_key_field gen_join_payload_field
  gen_win_l_f_str gen_win_l_w_str gen_win_r_f_str gen_win_r_w_str gen_win_lo_str gen_win_hi_str
  gen_win_l_f_mem gen_win_l_w_mem gen_win_r_f_mem gen_win_r_w_mem gen_win_lo_mem gen_win_hi_mem
  gen_clip_start gen_clip_stop gen_ceb_max gen_ceb_cond gen_ceb_nblocks gen_ceb_lo gen_ceb_hi m_win_flanks clip_iv m_nblocks max_block
  m_ce_cond m_cl_cond m_cl_after m_br_cond m_gb_fast_test m_node_cached m_node_pull
  sum_and_n pair_add] zeta.
Ltac bool_cases := repeat match goal with
  | |- context [(?a =? ?b)%nat] => destruct (Nat.eqb_spec a b)
  | |- context [(?a <=? ?b)%nat] => destruct (Nat.leb_spec a b)
  | |- context [?a >=? ?b] => rewrite (Z.geb_leb a b)
  | |- context [?a >? ?b] => rewrite (Z.gtb_ltb a b)
  | |- context [?a =? ?b] => destruct (Z.eqb_spec a b)
  | |- context [?a <=? ?b] => destruct (Z.leb_spec a b)
  | |- context [?a <? ?b] => destruct (Z.ltb_spec a b)
  end.
Ltac bridge := intros; unfold_kernels;
  first [ reflexivity | ring | lia
        | solve [bool_cases; cbn [andb orb negb]; first [reflexivity | lia | congruence]]
        | solve [repeat split; first [reflexivity | lia]] ].

(* ---------- streams/chunk_entries.py:_chunk_entries ---------- *)
Lemma b_ce_loop_cond : forall bs n : nat, gen_ce_loop_cond (Z.of_nat bs) (Z.of_nat n) = m_ce_cond bs n.
Proof. bridge. Qed.
Lemma b_ce_size_in : forall buf c : list Z, gen_ce_size_in (len buf) (len c) = len (buf ++ c).
Proof. intros. rewrite len_app. bridge. Qed.
Lemma b_ce_emit_stop : forall (n : nat) (total : list Z), slice 0 (gen_ce_emit_stop (Z.of_nat n)) total = firstn n total.
Proof. intros. rewrite slice_0_firstn. unfold_kernels. rewrite Nat2Z.id. reflexivity. Qed.
Lemma b_ce_carry_start : forall (n : nat) (total : list Z),
  skipn (Z.to_nat (gen_ce_carry_start (Z.of_nat n))) total = skipn n total.
Proof. intros. unfold_kernels. rewrite Nat2Z.id. reflexivity. Qed.
Lemma b_ce_size_after : forall (n : nat) (total : list Z), gen_ce_size_after (len total) (Z.of_nat n) = len (skipn n total).
Proof. intros. rewrite len_skipn. bridge. Qed.
Lemma b_ce_tail_cond : forall buf : list Z, gen_ce_tail_cond (len buf) = match buf with [] => false | _ => true end.
Proof. intros [|x buf]; [reflexivity|]. rewrite len_cons. pose proof (len_nonneg buf). bridge. Qed.

(* ---------- io/parser.py:chunk_lines ---------- *)
Lemma b_cl_loop_cond : forall k r, gen_cl_loop_cond k r = m_cl_cond k r.
Proof. bridge. Qed.
Lemma b_cl_bounds : forall r n, gen_cl_take_stop r = r /\ gen_cl_rest_start r = r /\ gen_cl_reset n = n.
Proof. bridge. Qed.
Lemma b_cl_after : forall r k, gen_cl_after r k = m_cl_after r k.
Proof. bridge. Qed.

(* ---------- streams/reductions.py, computation_graph.py ---------- *)
Lemma b_sum_and_n : forall c : list Z, gen_sum_and_n (sumZ c) (len c) = sum_and_n c.
Proof. bridge. Qed.
Lemma b_br_cond : forall a b : nat, gen_br_cond (Z.of_nat a) (Z.of_nat b) = m_br_cond a b.
Proof. bridge. Qed.
Lemma b_br_stops : forall a b, gen_br_then_stop a b = b /\ gen_br_else_stop a b = a.
Proof. bridge. Qed.
Lemma b_br_add : forall x y l, add_prefix (x :: l) [y] = gen_br_add x y :: l.
Proof. intros. unfold_kernels. destruct l; reflexivity. Qed.
Lemma b_hr_total : forall r f, [gen_hr_total r f] = vadd [r] [f].
Proof. bridge. Qed.
Lemma b_mean_reduction : forall a0 a1 b0 b1, gen_mean_reduction a0 a1 b0 b1 = pair_add (a0, a1) (b0, b1).
Proof. bridge. Qed.
(* _add_columns: equal lengths add, otherwise the longer operand keeps its tail and its first len(b) columns receive b;
   the model's sn_padadd adds the (sum, count) pairs column by column and keeps the tail of the longer list *)
Lemma b_add_columns : forall (p q : Z * Z) (x y : list (Z * Z)) la lb,
  sn_padadd (p :: x) (q :: y) = (gen_ac_add (fst p) (fst q), gen_ac_add (snd p) (snd q)) :: sn_padadd x y
  /\ sn_padadd (p :: x) [] = p :: x /\ sn_padadd [] (q :: y) = q :: y
  /\ gen_ac_equal_cond la lb = (la =? lb) /\ gen_ac_swap_cond la lb = (la <? lb)
  /\ gen_ac_prefix_stop la lb = lb /\ gen_ac_tail_start la lb = lb.
Proof. intros. repeat split; reflexivity. Qed.
Lemma b_add_hist_count : forall x y, red_hist (GL [x]) (GL [y]) = GL [gen_add_hist_count x y].
Proof. bridge. Qed.
(* the reductions of np.sum (after fix-3).  Node.__array_function__ sends np.sum through `_buffer_sum` per buffer and reduces
   with `_sum_reduction(axis)`, axis read from the keyword or the second positional argument; `_sum_reduction` returns
   `_add_totals` for axis None (red_total), `_add_columns` for axis 0 / -2 (red_cols), `_concatenate_rows` otherwise
   (red_rows); `_add_totals` adds two 0-d results and concatenates otherwise; `_concatenate_rows` keeps the order (a, b);
   `_buffer_sum` is 0 for axis 0 / -2 and a buffer without rows; np.histogram stays in reductions_map. *)
Lemma b_sum_reduction : forall (x y axis nrows : Z) (l1 l2 : list Z),
  (gen_hist_reduction = "_add_histograms"%string
   /\ gen_af_sum_func = "_buffer_sum"%string /\ gen_af_sum_red = "_sum_reduction(axis)"%string
   /\ gen_af_sum_axis = "kwargs.get('axis', args[1] if len(args) > 1 else None)"%string)
  /\ (gen_sumred_none = "_add_totals"%string /\ gen_sumred_axis0 = "_add_columns"%string
      /\ gen_sumred_rows = "_concatenate_rows"%string /\ gen_sumred_axis0_cond axis = (axis =? 0) || (axis =? -2))
  /\ (gen_at_scalar_cond 0 0 = true /\ red_total (GZ x) (GZ y) = GZ (gen_at_add x y)
      /\ gen_at_scalar_cond 1 1 = false /\ gen_at_scalar_cond 0 1 = false /\ gen_at_scalar_cond 1 0 = false
      /\ gen_at_else = "_concatenate_rows(a, b)"%string
      /\ red_total (GL l1) (GL l2) = red_rows (GL l1) (GL l2))
  /\ (gen_cr_first = "a"%string /\ gen_cr_second = "b"%string /\ red_rows (GL l1) (GL l2) = GL (l1 ++ l2))
  /\ (gen_bs_empty_cond axis nrows = ((axis =? 0) || (axis =? -2)) && (nrows =? 0)
      /\ op_colsums_fixed [GR []] = GZ gen_bs_empty_val
      /\ red_cols (GZ gen_bs_empty_val) (GL l1) = GL l1 /\ red_cols (GL l1) (GZ gen_bs_empty_val) = GL l1
      /\ red_cols (GL (x :: l1)) (GL (y :: l2)) = GL (gen_ac_add x y :: z_padadd l1 l2)
      /\ red_cols (GL (x :: l1)) (GL []) = GL (x :: l1) /\ red_cols (GL []) (GL (y :: l2)) = GL (y :: l2)).
Proof. intros. unfold_kernels. repeat split; reflexivity. Qed.

(* graph nodes: the model keeps idx = _buffer_index + 1.  assertion passes and the node advances  <->  pull;
   assertion passes and the cached buffer is returned  <->  cached; otherwise the assertion fails (RAssert). *)
Lemma b_stream_node : forall idx i : nat,
  gen_sn_assert (Z.of_nat idx - 1) (Z.of_nat i) && gen_sn_advance (Z.of_nat idx - 1) (Z.of_nat i) = m_node_pull idx i
  /\ gen_sn_assert (Z.of_nat idx - 1) (Z.of_nat i) && negb (gen_sn_advance (Z.of_nat idx - 1) (Z.of_nat i)) = m_node_cached idx i
  /\ gen_sn_next (Z.of_nat idx - 1) = Z.of_nat (S idx) - 1.
Proof. intros. repeat split; bridge. Qed.
Lemma b_computation_node : forall idx i : nat,
  gen_cn_assert (Z.of_nat idx - 1) (Z.of_nat i) && gen_cn_cached (Z.of_nat idx - 1) (Z.of_nat i) = m_node_cached idx i
  /\ gen_cn_assert (Z.of_nat idx - 1) (Z.of_nat i) && negb (gen_cn_cached (Z.of_nat idx - 1) (Z.of_nat i)) = m_node_pull idx i
  /\ gen_cn_next (Z.of_nat idx - 1) = Z.of_nat (S idx) - 1.
Proof. intros. repeat split; bridge. Qed.

(* ---------- streams/groupby_func.py ---------- *)
Lemma b_gc_changed : forall prev next,
  [gen_gc_changed_encoded next prev] = neq_adjacent [prev; next]
  /\ [gen_gc_changed_string next prev] = neq_adjacent [prev; next]
  /\ [gen_gc_changed_plain next prev] = neq_adjacent [prev; next].
Proof. intros. cbn [neq_adjacent]. rewrite (Z.eqb_sym prev next). bridge. Qed.
Lemma b_gc_index : forall i, [gen_gc_index i] = map (Z.add 1) [i].
Proof. intros. cbn [map]. f_equal. bridge. Qed.
Lemma b_gb_fast_test : forall first last, gen_gb_fast_test last first = m_gb_fast_test first last.
Proof. intros. unfold_kernels. apply Z.eqb_sym. Qed.
Lemma b_gb_empty_test : forall fast (keys data : list Z),
  gen_gb_empty_test (len keys) = true -> groupby_chunk fast keys data = [].
Proof. intros fast keys data H. unfold groupby_chunk. unfold_kernels. unfold gen_gb_empty_test in H. rewrite H. reflexivity. Qed.
Lemma b_gb_fast_start : forall data : list Z, skipn (Z.to_nat gen_gb_fast_start) data = skipn 0 data.
Proof. bridge. Qed.
Lemma b_gb_bounds : forall ch n,
  gen_gb_insert_pos = 0 /\ (gen_gb_insert_val :: ch) ++ [gen_gb_last_bound n] = (0 :: ch) ++ [n].
Proof. bridge. Qed.
Lemma b_gb_group : forall (keys : list Z) (data : list Z) s e,
  (nthZ keys (gen_gb_key_index s e), slice (gen_gb_slice_lo s e) (gen_gb_slice_hi s e) data) = (nthZ keys s, slice s e data).
Proof. bridge. Qed.
Lemma b_join_fields : gen_join_key_field = 0 /\ gen_join_payload_field = 1.
Proof. bridge. Qed.

(* ---------- operand order of ufuncs on graph nodes; orientation of stranded rows ---------- *)
(* both __array_ufunc__ hand the operands on in the order they were written: the model's ufunc node keeps the
   template [left; right] (fill_args), so `c - x` and `x - c` are different nodes *)
Lemma b_ufunc_operand_order : forall o c (x : list Z),
  gen_ufunc_operand_order = "as_written"%string /\ gen_track_ufunc_operand_order = "as_written"%string
  /\ apply_ufunc o (fill_args [OConst c; ONode 0%nat] [GL x]) = GL (map (bop_eval o c) x)
  /\ apply_ufunc o (fill_args [ONode 0%nat; OConst c] [GL x]) = GL (map (fun v => bop_eval o v c) x).
Proof. intros. repeat split; reflexivity. Qed.
(* strand code 0 is the symbol both worlds compare with; such rows stay forward, all others are reversed *)
Lemma b_stranded_forward : forall row,
  gen_stranded_forward_symbol = "+"%string /\ gen_stranded_forward_symbol_mem = "+"%string
  /\ orient 0 row = row /\ orient 1 row = rev row /\ orient 2 row = rev row.
Proof. intros. repeat split; reflexivity. Qed.

(* ---------- get_windows keyword forms (streamed and in-memory), clip, blocked counting ---------- *)
Lemma b_win_flanks : forall f w p l r,
  (gen_win_l_f_str f, gen_win_r_f_str f) = m_win_flanks (WFlank f)
  /\ (gen_win_l_w_str w, gen_win_r_w_str w) = m_win_flanks (WSize w)
  /\ (gen_win_l_f_mem f, gen_win_r_f_mem f) = m_win_flanks (WFlank f)
  /\ (gen_win_l_w_mem w, gen_win_r_w_mem w) = m_win_flanks (WSize w)
  /\ gen_win_lo_str p l r = p - l /\ gen_win_hi_str p l r = p + r
  /\ gen_win_lo_mem p l r = p - l /\ gen_win_hi_mem p l r = p + r.
Proof. intros. repeat split; reflexivity. Qed.
Lemma b_clip : forall size (i : iv), (gen_clip_start (fst i) size, gen_clip_stop (snd i) size) = clip_iv size i.
Proof. bridge. Qed.
Lemma b_count_blocks : forall n M i,
  gen_ceb_max = max_block /\ gen_ceb_cond n M = (n >? M) /\ gen_ceb_nblocks n M = m_nblocks n M
  /\ gen_ceb_lo i M = i * M /\ gen_ceb_hi i M = (i + 1) * M.
Proof. intros. repeat split; reflexivity. Qed.

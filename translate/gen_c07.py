"""gen_c07 — regenerates coq/theories/Gen/C07.v from bionumpy/io/strops.py, bionumpy/util/ragged_slice.py and
bionumpy/string_array.py.

Kernels (source function -> generated definition):
  strops.join                  new_lengths = sequences.lengths+1                 gen_join_new_len
                               new_array[:, :k] = sequences   (columns covered)   gen_join_body_len
                               new_array[:, k] = sep          (flat position)     gen_join_sep_pos
                               if keep_last: return X / return X[:-d]             gen_join_drop
  strops.split                 lens[0] = sep_idx[0]+1                             gen_split_first_len
                               mask[k] = True                                     gen_split_forced_index
                               return ragged_array[:, :k]     (row length)        gen_split_row_len
                               lens = np.diff(unsafe_extend_left(sep_idx))        gen_split_lens_src      (text)
  strops.str_equal             mask = (sequences.lengths == L), L = len(match)    gen_streq_mask
                               sequences.ravel()[starts[:, np.newaxis]+np.arange(L)]  gen_streq_index
                               mask[mask] &= np.all(matrix == match_string, -1)   gen_streq_refine_src    (text)
  strops._str_equal_two_...    mask = (sequences.lengths == L), L = b.lengths     gen_streq2_mask
                               mask[mask] &= (a[mask] == b[mask]).all(axis=-1)    gen_streq2_refine_src   (text)
  util/ragged_slice.ragged_slice   nps.ragged_slice(array.ravel(), starts, ends)  gen_rslice_call_src     (text)
  string_array.string_array    as_padded_matrix(side=...)                         gen_sarr_pad_side       (text)
                               if input_data.size == 0: (ragged branch)           gen_sarr_empty_guard_src (text)

Reading conventions (trusted; stated in notes/C07.md): element-wise NumPy expressions over equally shaped / broadcast
arrays are read per element (`sequences.lengths` is the row length l; `starts[:, np.newaxis] + np.arange(L)` at
(row, column k) is st + k); on a ragged array whose row has length n and starts at flat offset s, `x[:, :k]` with k < 0
covers n + k columns, `x[:, k]` with k < 0 addresses flat position s + n + k, and `y[:-d]` drops d trailing elements.
"Text" kernels carry the unparsed source of one statement / call; the bridge compares them literally with the text the
model was written against, so any edit of that statement breaks the bridge (fail closed, possibly without a failing
input when the edit is a harmless re-spelling).  Everything outside these shapes raises Unsupported (emitted as `unit`).
"""
import ast
import os

from translate.py2coq import Kernel, Unsupported, find_function, src_of, CMPOPS

REPO = os.environ.get('VERIF_REPO', '/repo')

PRELUDE = 'From Coq Require Import Bool.\n'


def parse(rel):
    return ast.parse(open(os.path.join(REPO, rel)).read())


def emit(defs, name, fn):
    try:
        defs.append(fn())
    except Unsupported as e:
        defs.append('(* NOT TRANSLATED: %s *)\nDefinition %s : unit := tt.\n' % (str(e).replace('*)', '* )'), name))
    except Exception as e:      # a vanished function, a syntax error ...: also fail closed
        defs.append('(* NOT TRANSLATED: %s: %s *)\nDefinition %s : unit := tt.\n' % (type(e).__name__, str(e).replace('*)', '* )'), name))


def zconst(node):
    """an integer literal, possibly negated"""
    if isinstance(node, ast.Constant) and isinstance(node.value, int) and not isinstance(node.value, bool):
        return node.value
    if isinstance(node, ast.UnaryOp) and isinstance(node.op, ast.USub):
        v = zconst(node.operand)
        return -v
    raise Unsupported('not an integer literal: %s' % src_of(node))


def zlit(v):
    return str(v) if v >= 0 else '(%d)' % v


def is_full_slice(n):
    return isinstance(n, ast.Slice) and n.lower is None and n.upper is None and n.step is None


def col_index(sub, base):
    """`base[:, X]` -> X (an ast node); anything else Unsupported"""
    if not (isinstance(sub, ast.Subscript) and isinstance(sub.value, ast.Name) and sub.value.id == base):
        raise Unsupported('not a subscript of %s: %s' % (base, src_of(sub)))
    sl = sub.slice
    if not (isinstance(sl, ast.Tuple) and len(sl.elts) == 2 and is_full_slice(sl.elts[0])):
        raise Unsupported('not of the form %s[:, X]: %s' % (base, src_of(sub)))
    return sl.elts[1]


def upto_negative(node):
    """`:k` with a negative integer literal k -> k"""
    if not (isinstance(node, ast.Slice) and node.lower is None and node.step is None and node.upper is not None):
        raise Unsupported('not a slice of the form :k: %s' % src_of(node))
    k = zconst(node.upper)
    if k >= 0:
        raise Unsupported('slice bound is not negative: %s' % src_of(node))
    return k


def only(nodes, what):
    nodes = list(nodes)
    if len(nodes) != 1:
        raise Unsupported('%s: expected exactly one, found %d' % (what, len(nodes)))
    return nodes[0]


def assigns_to(func, pred):
    return [n for n in ast.walk(func) if isinstance(n, ast.Assign) and len(n.targets) == 1 and pred(n.targets[0], n.value)]


def cstring(s):
    if any(ord(c) > 126 or ord(c) < 32 for c in s):
        raise Unsupported('non-printable source text')
    return '"%s"%%string' % s.replace('"', '""')


def text_def(name, s):
    return 'Definition %s : string := %s.\n' % (name, cstring(s))


class K07(Kernel):
    """Kernel + the per-(row, column) reading of `starts[:, np.newaxis] + np.arange(L)`; fail-closed."""

    def __init__(self, func, renames, col=None, col_len=None):
        super().__init__(func, renames)
        self.col, self.col_len = col, col_len

    def expr(self, node, params, deps):
        s = src_of(node)
        if s in self.renames:
            return self.renames[s]
        if isinstance(node, ast.Subscript) and src_of(node.slice) in (':, np.newaxis', '(:, np.newaxis)'):
            return self.expr(node.value, params, deps)
        if isinstance(node, ast.Call) and src_of(node.func) == 'np.arange' and len(node.args) == 1 and not node.keywords:
            if self.col is None or src_of(node.args[0]) != self.col_len:
                raise Unsupported('np.arange(%s) has no per-column reading here' % src_of(node.args[0]))
            return self.col
        return super().expr(node, params, deps)


def gen():
    defs = [PRELUDE]
    rel = 'bionumpy/io/strops.py'
    tree = parse(rel)

    # ------------------------------------------------------------------ join
    def fjoin():
        return find_function(tree, 'join')

    def join_new_len_text(k):
        deps = []
        vals = k.assigns.get('new_lengths')
        if not vals or len(vals) != 1 or vals[0] is None:
            raise Unsupported('new_lengths is not assigned exactly once')
        t = k.expr(vals[0], ['l'], deps)
        if deps:
            raise Unsupported('new_lengths reads locals %s' % deps)
        return t

    def kjoin():
        return K07(fjoin(), {'sequences.lengths': 'l'})
    emit(defs, 'gen_join_new_len', lambda: kjoin().define('gen_join_new_len', ['l'], 'new_lengths'))

    def join_array_is_new_lengths(f):
        # the rows of new_array have the lengths new_lengths: new_array = cls(EncodedArray(...), new_lengths)
        a = only(assigns_to(f, lambda t, v: isinstance(t, ast.Name) and t.id == 'new_array'), 'assignment to new_array')
        v = a.value
        if not (isinstance(v, ast.Call) and len(v.args) == 2 and src_of(v.args[1]) == 'new_lengths' and not v.keywords
                and src_of(v.func) in ('sequences.__class__', 'EncodedRaggedArray')):
            raise Unsupported('new_array is not built with the row lengths new_lengths: %s' % src_of(v))

    def join_body_len():
        f = fjoin()
        join_array_is_new_lengths(f)
        a = only(assigns_to(f, lambda t, v: isinstance(t, ast.Subscript) and src_of(v) == 'sequences'), 'assignment of sequences into new_array')
        k = upto_negative(col_index(a.targets[0], 'new_array'))
        return ('Definition gen_join_body_len (l : Z) : Z :=\n  let new_len := %s in\n  (new_len + %s).\n'
                % (join_new_len_text(kjoin()), zlit(k)))
    emit(defs, 'gen_join_body_len', join_body_len)

    def join_sep_pos():
        f = fjoin()
        join_array_is_new_lengths(f)
        a = only(assigns_to(f, lambda t, v: isinstance(t, ast.Subscript) and src_of(v) == 'sep'), 'assignment of sep into new_array')
        k = zconst(col_index(a.targets[0], 'new_array'))
        if k >= 0:
            raise Unsupported('separator column is not counted from the row end')
        return ('Definition gen_join_sep_pos (s : Z) (l : Z) : Z :=\n  let new_len := %s in\n  ((s + new_len) + %s).\n'
                % (join_new_len_text(kjoin()), zlit(k)))
    emit(defs, 'gen_join_sep_pos', join_sep_pos)

    def join_drop():
        f = fjoin()
        body = [n for n in f.body if not (isinstance(n, ast.Expr) and isinstance(n.value, ast.Constant))]
        if len(body) < 2 or not isinstance(body[-2], ast.If) or not isinstance(body[-1], ast.Return):
            raise Unsupported('join does not end with `if keep_last: return ...` followed by `return ...`')
        iff, last = body[-2], body[-1]
        if src_of(iff.test) != 'keep_last' or iff.orelse or len(iff.body) != 1 or not isinstance(iff.body[0], ast.Return):
            raise Unsupported('unexpected keep_last branch: %s' % src_of(iff))
        if src_of(iff.body[0].value) != 'new_array.ravel()':
            raise Unsupported('keep_last branch does not return new_array.ravel(): %s' % src_of(iff.body[0].value))
        v = last.value
        if not (isinstance(v, ast.Subscript) and src_of(v.value) == 'new_array.ravel()'):
            raise Unsupported('final return is not a slice of new_array.ravel(): %s' % src_of(v))
        d = -upto_negative(v.slice)
        return 'Definition gen_join_drop (keep_last : bool) : Z := if keep_last then 0 else %s.\n' % zlit(d)
    emit(defs, 'gen_join_drop', join_drop)

    # ------------------------------------------------------------------ split
    def fsplit():
        return find_function(tree, 'split')

    def split_first_len():
        f = fsplit()
        a = only(assigns_to(f, lambda t, v: src_of(t) == 'lens[0]'), 'assignment to lens[0]')
        k = K07(f, {'sep_idx[0]': 'i0'})
        deps = []
        t = k.expr(a.value, ['i0'], deps)
        if deps:
            raise Unsupported('lens[0] reads locals %s' % deps)
        return 'Definition gen_split_first_len (i0 : Z) : Z := %s.\n' % t
    emit(defs, 'gen_split_first_len', split_first_len)

    def split_forced_index():
        f = fsplit()
        a = only(assigns_to(f, lambda t, v: isinstance(t, ast.Subscript) and src_of(t.value) == 'mask'
                            and isinstance(v, ast.Constant) and v.value is True), 'mask[k] = True')
        return 'Definition gen_split_forced_index : Z := %s.\n' % zlit(zconst(a.targets[0].slice))
    emit(defs, 'gen_split_forced_index', split_forced_index)

    def split_row_len():
        f = fsplit()
        body = [n for n in f.body if not (isinstance(n, ast.Expr) and isinstance(n.value, ast.Constant))]
        if not isinstance(body[-1], ast.Return):
            raise Unsupported('split does not end with a return')
        k = upto_negative(col_index(body[-1].value, 'ragged_array'))
        a = only(assigns_to(f, lambda t, v: isinstance(t, ast.Name) and t.id == 'ragged_array'), 'assignment to ragged_array')
        if not (isinstance(a.value, ast.Call) and len(a.value.args) == 2 and src_of(a.value.args[1]) == 'lens'):
            raise Unsupported('ragged_array is not built with the row lengths lens')
        return 'Definition gen_split_row_len (l : Z) : Z := (l + %s).\n' % zlit(k)
    emit(defs, 'gen_split_row_len', split_row_len)

    def split_lens_src():
        f = fsplit()
        a = only(assigns_to(f, lambda t, v: isinstance(t, ast.Name) and t.id == 'lens'), 'assignment to lens')
        return text_def('gen_split_lens_src', src_of(a.value))
    emit(defs, 'gen_split_lens_src', split_lens_src)

    # ------------------------------------------------------------------ str_equal
    def mask_def(qual, name, lname, rname, right_src):
        f = find_function(tree, qual)
        a = only(assigns_to(f, lambda t, v: isinstance(t, ast.Name) and t.id == 'mask'), 'assignment to mask in %s' % qual)
        c = a.value
        if not (isinstance(c, ast.Compare) and len(c.ops) == 1 and type(c.ops[0]) in CMPOPS):
            raise Unsupported('mask is not a single comparison: %s' % src_of(c))
        if src_of(c.left) != 'sequences.lengths' or src_of(c.comparators[0]) != 'L':
            raise Unsupported('mask does not compare sequences.lengths with L: %s' % src_of(c))
        la = only(assigns_to(f, lambda t, v: isinstance(t, ast.Name) and t.id == 'L'), 'assignment to L in %s' % qual)
        if src_of(la.value) != right_src:
            raise Unsupported('L is %s, expected %s' % (src_of(la.value), right_src))
        return 'Definition %s (%s : Z) (%s : Z) : bool := (%s %s %s).\n' % (name, lname, rname, lname, CMPOPS[type(c.ops[0])], rname)
    emit(defs, 'gen_streq_mask', lambda: mask_def('str_equal', 'gen_streq_mask', 'l', 'L', 'len(match_string)'))
    emit(defs, 'gen_streq2_mask', lambda: mask_def('_str_equal_two_encoded_ragged_arrays', 'gen_streq2_mask', 'la', 'lb', 'sequences_b.lengths'))

    def streq_index():
        f = find_function(tree, 'str_equal')
        a = only(assigns_to(f, lambda t, v: isinstance(t, ast.Name) and t.id == 'matrix'), 'assignment to matrix')
        v = a.value
        if not (isinstance(v, ast.Subscript) and src_of(v.value) == 'sequences.ravel()'):
            raise Unsupported('matrix is not an index into sequences.ravel(): %s' % src_of(v))
        sa = only(assigns_to(f, lambda t, v: isinstance(t, ast.Name) and t.id == 'starts'), 'assignment to starts')
        if src_of(sa.value) != 'sequences._shape.starts[mask]':
            raise Unsupported('starts is %s' % src_of(sa.value))
        k = K07(f, {'starts': 'st'}, col='k', col_len='L')
        deps = []
        t = k.expr(v.slice, ['st', 'k'], deps)
        if deps:
            raise Unsupported('matrix index reads locals %s' % deps)
        return 'Definition gen_streq_index (st : Z) (k : Z) : Z := %s.\n' % t
    emit(defs, 'gen_streq_index', streq_index)

    def refine_src(qual, name):
        f = find_function(tree, qual)
        a = only([n for n in ast.walk(f) if isinstance(n, ast.AugAssign) and src_of(n.target) == 'mask[mask]'], 'mask[mask] update in %s' % qual)
        return text_def(name, src_of(a))
    emit(defs, 'gen_streq_refine_src', lambda: refine_src('str_equal', 'gen_streq_refine_src'))
    emit(defs, 'gen_streq2_refine_src', lambda: refine_src('_str_equal_two_encoded_ragged_arrays', 'gen_streq2_refine_src'))

    # ------------------------------------------------------------------ util/ragged_slice.py
    def rslice_call():
        t2 = parse('bionumpy/util/ragged_slice.py')
        f = find_function(t2, 'ragged_slice')
        a = only(assigns_to(f, lambda t, v: isinstance(t, ast.Name) and t.id == 'sliced_data'), 'assignment to sliced_data')
        return text_def('gen_rslice_call_src', src_of(a.value))
    emit(defs, 'gen_rslice_call_src', rslice_call)

    # ------------------------------------------------------------------ string_array.py
    def sarr_tree():
        return find_function(parse('bionumpy/string_array.py'), 'string_array')

    def sarr_pad_side():
        calls = [n for n in ast.walk(sarr_tree()) if isinstance(n, ast.Call) and isinstance(n.func, ast.Attribute) and n.func.attr == 'as_padded_matrix']
        c = only(calls, 'call of as_padded_matrix')
        if c.args or len(c.keywords) != 1 or c.keywords[0].arg != 'side' or not isinstance(c.keywords[0].value, ast.Constant) \
                or not isinstance(c.keywords[0].value.value, str):
            raise Unsupported('as_padded_matrix is not called with side=<literal> only: %s' % src_of(c))
        return text_def('gen_sarr_pad_side', c.keywords[0].value.value)
    emit(defs, 'gen_sarr_pad_side', sarr_pad_side)

    def sarr_guard():
        f = sarr_tree()
        for n in ast.walk(f):
            if isinstance(n, ast.If) and src_of(n.test) == 'isinstance(input_data, EncodedRaggedArray)':
                first = n.body[0]
                if isinstance(first, ast.If) and len(first.body) == 1 and isinstance(first.body[0], ast.Return):
                    return text_def('gen_sarr_empty_guard_src', src_of(first.test))
        raise Unsupported('no empty-text guard at the head of the ragged branch of string_array')
    emit(defs, 'gen_sarr_empty_guard_src', sarr_guard)
    return rel + ', bionumpy/util/ragged_slice.py, bionumpy/string_array.py', defs

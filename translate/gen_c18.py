"""gen_c18 — regenerates coq/theories/Gen/C18.v from bionumpy/io/strops.py and bionumpy/io/file_buffers.py.

Kernels (source function -> generated definition):
  strops.py module level           _POWERS_OF_TEN                       gen_powers_of_ten
  strops.ints_to_strings           magnitude / row length / digit       gen_its_magnitude, gen_its_length, gen_its_digit
  strops._build_power_array        fill values and the two scatter bumps gen_pa_fill, gen_pa_dot_fill, gen_pa_dot_offset,
                                                                        gen_pa_bump_first, gen_pa_bump_rest
  strops.str_to_int                power, term, sign (ragged path);     gen_s2i_power, gen_s2i_term, gen_s2i_signed,
                                   power of column j (matrix path)      gen_s2i_matrix_power
  strops._decimal_str_to_float     digits after the point, sign, 10^frac gen_dec_frac_digits, gen_dec_signed, gen_dec_den
  strops._scientific_str_to_float  where mantissa ends / exponent starts gen_sci_mant_end, gen_sci_exp_start
  strops.int_lists_to_strings, join  row length, joined length          gen_ilts_row_len, gen_join_len
  file_buffers.move_intervals_to_digit_array  window index, fill count, fill start  gen_mida_index, gen_mida_n_fill, gen_mida_fill_start

Reading conventions (trusted, stated in notes/C18.md): element-wise NumPy expressions over equally shaped / broadcast
arrays are read per element; `x[:, np.newaxis]`, `x[..., None]`, `RaggedArray(x, shape)` and `x.ravel()` do not change
the element; `np.arange(w)` read at column j is j and `np.arange(w)[::-1]` is w-1-j; a comparison used as a number is
0/1; `np.abs(x).astype(np.uint64)` on an int64 x is |x|; `np.uint64(c)` is c; a float literal with an integral value is
that integer (the float kernels are the exact-rational reading); `np.searchsorted(t, x, side='right')` on a sorted
table is the number of entries <= x.  Everything else raises Unsupported (definition emitted as `unit`).
"""
import ast
import os

from translate.py2coq import Kernel, Unsupported, find_function, src_of, CMPOPS

REPO = os.environ.get('VERIF_REPO', '/repo')

PRELUDE = '''From Coq Require Import List Bool.
From BNP Require Import Base.Prims.
Import ListNotations.
Open Scope Z_scope.
(* reading of np.searchsorted(table, x, side="right") on a sorted table: how many entries are <= x *)
Definition np_searchsorted_right (table : list Z) (x : Z) : Z := len (filter (fun t => t <=? x) table).
'''

DTYPE_MOD = {'np.uint64': '2 ^ 64'}


class K18(Kernel):
    """Kernel + a few more constructs, all fail-closed."""

    def __init__(self, func, renames, bools=(), col='j'):
        super().__init__(func, renames)
        self.bools = set(bools)      # parameters of type bool
        self.col = col               # name of the per-element column index for np.arange

    def cond(self, node, params, deps):
        """a boolean condition"""
        if isinstance(node, ast.Name) and node.id in self.bools:
            return node.id
        if isinstance(node, ast.Compare) and len(node.ops) == 1 and type(node.ops[0]) in CMPOPS:
            return '(%s %s %s)' % (self.expr(node.left, params, deps), CMPOPS[type(node.ops[0])],
                                   self.expr(node.comparators[0], params, deps))
        raise Unsupported('condition outside the subset: %s' % src_of(node))

    def expr(self, node, params, deps):
        s = src_of(node)
        if s in self.renames:
            return self.renames[s]
        if isinstance(node, ast.Name) and node.id in self.bools:
            raise Unsupported('boolean %s used as a number' % node.id)
        # integral float literal (exact-rational reading of the float kernels)
        if isinstance(node, ast.Constant) and isinstance(node.value, float) and node.value == int(node.value) and node.value >= 0:
            return str(int(node.value))
        if isinstance(node, ast.UnaryOp) and isinstance(node.op, ast.UAdd):
            return self.expr(node.operand, params, deps)
        if isinstance(node, ast.BinOp) and isinstance(node.op, ast.Pow):
            return '(%s ^ %s)' % (self.expr(node.left, params, deps), self.expr(node.right, params, deps))
        # a comparison used as a number: 0/1
        if isinstance(node, ast.Compare):
            return '(if %s then 1 else 0)' % self.cond(node, params, deps)
        if isinstance(node, ast.Subscript):
            sl = src_of(node.slice)
            if sl in (':, np.newaxis', '(:, np.newaxis)', '..., None', '(..., None)'):
                return self.expr(node.value, params, deps)
            if sl == '::-1' and isinstance(node.value, ast.Call) and src_of(node.value.func) == 'np.arange' \
                    and len(node.value.args) == 1 and not node.value.keywords:
                if self.col not in params:
                    raise Unsupported('np.arange read per column needs the column parameter')
                return '((%s - 1) - %s)' % (self.expr(node.value.args[0], params, deps), self.col)
            if src_of(node.value) == '_POWERS_OF_TEN' and not isinstance(node.slice, ast.Slice):
                return '(nthZ gen_powers_of_ten %s)' % self.expr(node.slice, params, deps)
        if isinstance(node, ast.Call):
            f = src_of(node.func)
            if f == 'np.arange' and len(node.args) == 1 and not node.keywords:
                if self.col not in params:
                    raise Unsupported('np.arange read per column needs the column parameter')
                self.expr(node.args[0], params, deps)       # the width must itself be translatable
                return self.col
            if f == 'RaggedArray' and len(node.args) == 2 and not node.keywords:
                return self.expr(node.args[0], params, deps)
            if f == 'np.uint64' and len(node.args) == 1 and isinstance(node.args[0], ast.Constant) \
                    and isinstance(node.args[0].value, int) and 0 <= node.args[0].value < 2 ** 64:
                return str(node.args[0].value)
            if f.endswith('.ravel') and not node.args and not node.keywords:
                return self.expr(node.func.value, params, deps)
            if f.endswith('.astype') and len(node.args) == 1 and src_of(node.args[0]) == 'np.uint64' \
                    and isinstance(node.func.value, ast.Call) and src_of(node.func.value.func) == 'np.abs' \
                    and len(node.func.value.args) == 1:
                return '(Z.abs %s)' % self.expr(node.func.value.args[0], params, deps)
            if f == 'np.searchsorted' and len(node.args) == 2 and len(node.keywords) == 1 \
                    and node.keywords[0].arg == 'side' and src_of(node.keywords[0].value) == "'right'":
                t = node.args[0]
                if src_of(t) == '_POWERS_OF_TEN[1:]':
                    return '(np_searchsorted_right (tl gen_powers_of_ten) %s)' % self.expr(node.args[1], params, deps)
                raise Unsupported('searchsorted on an unknown table: %s' % src_of(t))
            if f == 'np.where' and len(node.args) == 3 and not node.keywords:
                return '(if %s then %s else %s)' % (self.cond(node.args[0], params, deps),
                                                    self.expr(node.args[1], params, deps), self.expr(node.args[2], params, deps))
        return super().expr(node, params, deps)

    def define(self, coq_name, params, out, local_overrides=None):
        txt = super().define(coq_name, params, out, local_overrides)
        for b in self.bools:
            txt = txt.replace('(%s : Z)' % b, '(%s : bool)' % b)
        return txt


def _parse(rel):
    return ast.parse(open(os.path.join(REPO, rel)).read())


def _emit(defs, name, fn):
    try:
        defs.append(fn())
    except Unsupported as e:
        defs.append('(* NOT TRANSLATED: %s *)\nDefinition %s : unit := tt.\n' % (str(e).replace('*)', '* )'), name))
    except Exception as e:
        defs.append('(* NOT TRANSLATED: %s: %s *)\nDefinition %s : unit := tt.\n' % (type(e).__name__, str(e).replace('*)', '* )'), name))


def _one(nodes, what):
    nodes = list(nodes)
    if len(nodes) != 1:
        raise Unsupported('%s: expected exactly one, found %d' % (what, len(nodes)))
    return nodes[0]


def _stmts(func, kind):
    return [n for n in ast.walk(func) if isinstance(n, kind)]


def _assign_to(func, target_src, kind=ast.Assign):
    """the unique (aug)assignment whose target has this source text"""
    if kind is ast.Assign:
        return _one([n for n in _stmts(func, ast.Assign) if len(n.targets) == 1 and src_of(n.targets[0]) == target_src],
                    'assignment to ' + target_src)
    return _one([n for n in _stmts(func, ast.AugAssign) if src_of(n.target) == target_src], 'augmented assignment to ' + target_src)


def _call(func, callee, nth=None):
    calls = [n for n in ast.walk(func) if isinstance(n, ast.Call) and src_of(n.func) == callee]
    return _one(calls, 'call to ' + callee)


def _return(func):
    rets = [n for n in ast.walk(func) if isinstance(n, ast.Return)]
    if not rets:
        raise Unsupported('no return')
    return max(rets, key=lambda n: n.lineno).value      # straight-line tail of the function


def _const_def(name, node):
    if isinstance(node, ast.UnaryOp) and isinstance(node.op, ast.USub) and isinstance(node.operand, ast.Constant) \
            and isinstance(node.operand.value, int):
        v = -node.operand.value
    elif isinstance(node, ast.Constant) and isinstance(node.value, int) and not isinstance(node.value, bool):
        v = node.value
    else:
        raise Unsupported('%s is not an integer literal: %s' % (name, src_of(node)))
    return 'Definition %s : Z := %s.\n' % (name, '(%d)' % v if v < 0 else str(v))


def gen():
    rel = 'bionumpy/io/strops.py'
    tree = _parse(rel)
    defs = [PRELUDE]

    # ---- module level table of powers of ten
    def powers_table():
        a = _one([n for n in tree.body if isinstance(n, ast.Assign) and len(n.targets) == 1
                  and src_of(n.targets[0]) == '_POWERS_OF_TEN'], 'module-level _POWERS_OF_TEN')
        v = a.value
        if not (isinstance(v, ast.BinOp) and isinstance(v.op, ast.Pow) and isinstance(v.left, ast.Constant)
                and isinstance(v.left.value, int) and isinstance(v.right, ast.Call) and src_of(v.right.func) == 'np.arange'
                and len(v.right.args) == 1 and isinstance(v.right.args[0], ast.Constant) and isinstance(v.right.args[0].value, int)
                and len(v.right.keywords) == 1 and v.right.keywords[0].arg == 'dtype'
                and src_of(v.right.keywords[0].value) in DTYPE_MOD):
            raise Unsupported('_POWERS_OF_TEN is not base**np.arange(n, dtype=<known unsigned type>): %s' % src_of(v))
        return 'Definition gen_powers_of_ten : list Z := map (fun k => (%d ^ k) mod %s) (arange %d).\n' % (
            v.left.value, DTYPE_MOD[src_of(v.right.keywords[0].value)], v.right.args[0].value)
    _emit(defs, 'gen_powers_of_ten', powers_table)

    # ---- ints_to_strings
    def k_its():
        return K18(find_function(tree, 'ints_to_strings'), {'ragged_index.ravel()': 'p'})
    _emit(defs, 'gen_its_magnitude', lambda: k_its().define('gen_its_magnitude', ['number'], 'magnitude'))
    _emit(defs, 'gen_its_length', lambda: k_its().define('gen_its_length', ['number'], _call(k_its().func, 'RaggedShape').args[0]))
    _emit(defs, 'gen_its_digit', lambda: k_its().define('gen_its_digit', ['number', 'p'], _assign_first(k_its().func, 'digits')))

    # ---- _build_power_array
    fpa = lambda: find_function(tree, '_build_power_array')
    def pa_fill():
        c = _call(fpa(), 'np.full')
        if len(c.args) < 2:
            raise Unsupported('np.full without a fill value')
        return _const_def('gen_pa_fill', c.args[1])
    _emit(defs, 'gen_pa_fill', pa_fill)
    _emit(defs, 'gen_pa_dot_fill', lambda: _const_def('gen_pa_dot_fill', _assign_to(fpa(), 'index_array[shape.ravel_multi_index(dots)]').value))
    _emit(defs, 'gen_pa_dot_offset', lambda: _const_def('gen_pa_dot_offset', _assign_to(fpa(), 'offset[dots[0]]').value))
    _emit(defs, 'gen_pa_bump_first', lambda: K18(fpa(), {'lengths[0]': 'length', 'offset_0': 'offset'}).define(
        'gen_pa_bump_first', ['length', 'offset'], _assign_to(fpa(), 'index_array[0]', ast.AugAssign).value))
    def pa_rest():
        a = _assign_to(fpa(), 'index_array[np.cumsum(lengths)[:-1]]', ast.AugAssign)
        if not isinstance(a.op, ast.Add):
            raise Unsupported('scatter is not +=')
        return K18(fpa(), {'lengths[1:]': 'length', 'offset_rest': 'offset'}).define('gen_pa_bump_rest', ['length', 'offset'], a.value)
    _emit(defs, 'gen_pa_bump_rest', pa_rest)

    # ---- str_to_int
    def fsi():
        # notes/C18.fix-3.diff moves the body of str_to_int into _str_to_int (the public function re-parses row by row
        # on the error path); the arithmetic kernels are those of the body
        try:
            return find_function(tree, '_str_to_int')
        except Unsupported:
            return find_function(tree, 'str_to_int')
    def s2i_power():
        a = _one([n for n in _stmts(fsi(), ast.Assign) if len(n.targets) == 1 and src_of(n.targets[0]) == 'powers'
                  and '_build_power_array' in src_of(n.value)], 'ragged powers')
        return K18(fsi(), {'_build_power_array(number_text._shape)': 'p'}).define('gen_s2i_power', ['p'], a.value)
    _emit(defs, 'gen_s2i_power', s2i_power)
    def s2i_ret():
        r = _return(fsi())
        if not (isinstance(r, ast.BinOp) and isinstance(r.op, ast.Mult) and src_of(r.left) == '(number_digits * powers).sum(axis=-1)'):
            raise Unsupported('str_to_int does not return (number_digits*powers).sum(axis=-1)*signs: %s' % src_of(r))
        return r
    _emit(defs, 'gen_s2i_term', lambda: K18(fsi(), {'number_digits': 'digit', 'powers': 'power'}).define(
        'gen_s2i_term', ['digit', 'power'], s2i_ret().left.func.value))
    _emit(defs, 'gen_s2i_signed', lambda: K18(fsi(), {'(number_digits * powers).sum(axis=-1)': 'value'}, bools=['is_negative']).define(
        'gen_s2i_signed', ['is_negative', 'value'], s2i_ret()))
    def s2i_matrix():
        a = _one([n for n in _stmts(fsi(), ast.Assign) if len(n.targets) == 1 and src_of(n.targets[0]) == 'powers'
                  and 'np.arange' in src_of(n.value)], 'matrix powers')
        return K18(fsi(), {'number_text.shape[-1]': 'width'}).define('gen_s2i_matrix_power', ['width', 'j'], a.value)
    _emit(defs, 'gen_s2i_matrix_power', s2i_matrix)

    # ---- _decimal_str_to_float
    fdec = lambda: find_function(tree, '_decimal_str_to_float')
    _emit(defs, 'gen_dec_frac_digits', lambda: K18(fdec(), {'number_text.lengths[row_indices]': 'length', 'col_indices': 'col'}).define(
        'gen_dec_frac_digits', ['length', 'col'], _assign_to(fdec(), 'exponents[row_indices]').value))
    def dec_ret():
        r = _return(fdec())
        if not (isinstance(r, ast.BinOp) and isinstance(r.op, ast.Div) and src_of(r.right) == 'powers'):
            raise Unsupported('_decimal_str_to_float does not return <numerator> / powers: %s' % src_of(r))
        return r
    _emit(defs, 'gen_dec_signed', lambda: K18(fdec(), {'base_numbers': 'base'}, bools=['is_negative']).define(
        'gen_dec_signed', ['is_negative', 'base'], dec_ret().left))
    def dec_den():
        dec_ret()
        assigns = [n for n in _stmts(fdec(), ast.Assign) if len(n.targets) == 1 and src_of(n.targets[0]) == 'powers']
        if not assigns:
            raise Unsupported('no assignment to powers')
        last = max(assigns, key=lambda n: n.lineno)     # straight-line code: the definition reaching the return
        return K18(fdec(), {}).define('gen_dec_den', ['exponents'], last.value)
    _emit(defs, 'gen_dec_den', dec_den)

    # ---- _scientific_str_to_float
    fsci = lambda: find_function(tree, '_scientific_str_to_float')
    def sci_kw(target, kw, name):
        a = _assign_to(fsci(), target)
        c = a.value
        if not (isinstance(c, ast.Call) and src_of(c.func) == 'ragged_slice' and len(c.args) == 1 and len(c.keywords) == 1
                and c.keywords[0].arg == kw):
            raise Unsupported('%s is not ragged_slice(text, %s=...): %s' % (target, kw, src_of(c)))
        return K18(fsci(), {}).define(name, ['cols'], c.keywords[0].value)
    _emit(defs, 'gen_sci_mant_end', lambda: sci_kw('decimal_text', 'ends', 'gen_sci_mant_end'))
    _emit(defs, 'gen_sci_exp_start', lambda: sci_kw('power_text', 'starts', 'gen_sci_exp_start'))

    # ---- int_lists_to_strings / join
    _emit(defs, 'gen_ilts_row_len', lambda: K18(find_function(tree, 'int_lists_to_strings'),
                                               {'lengths.sum(axis=-1)': 'sum_lengths', 'int_lists.lengths': 'n_items'}).define(
        'gen_ilts_row_len', ['sum_lengths', 'n_items'], 'row_lens'))
    _emit(defs, 'gen_join_len', lambda: K18(find_function(tree, 'join'), {'sequences.lengths': 'length'}).define(
        'gen_join_len', ['length'], 'new_lengths'))

    # ---- file_buffers.move_intervals_to_digit_array
    def k_mida():
        t2 = _parse('bionumpy/io/file_buffers.py')
        return K18(find_function(t2, 'move_intervals_to_digit_array'), {})
    PM = ['starts', 'ends', 'max_chars']
    _emit(defs, 'gen_mida_index', lambda: k_mida().define('gen_mida_index', PM + ['j'], 'indices'))
    def mida_view():
        c = _call(k_mida().func, 'RaggedView')
        if len(c.args) != 2:
            raise Unsupported('RaggedView call changed')
        return c
    _emit(defs, 'gen_mida_n_fill', lambda: k_mida().define('gen_mida_n_fill', PM, mida_view().args[1]))
    def mida_fill_start():
        k = k_mida()
        k.col = 'row'            # np.arange(starts.size) read at row number `row`
        k.renames = {'starts.size': 'n_rows'}
        return k.define('gen_mida_fill_start', ['row', 'n_rows', 'max_chars'], mida_view().args[0])
    _emit(defs, 'gen_mida_fill_start', mida_fill_start)
    return rel + ' and bionumpy/io/file_buffers.py', defs


def _assign_first(func, name):
    """value of the first plain assignment to a name that is re-assigned later (straight-line code)"""
    assigns = [n for n in _stmts(func, ast.Assign) if len(n.targets) == 1 and src_of(n.targets[0]) == name]
    if not assigns:
        raise Unsupported('no assignment to ' + name)
    return min(assigns, key=lambda n: n.lineno).value

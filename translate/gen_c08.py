"""gen_c08 — regenerates coq/theories/Gen/C08.v from bionumpy/arithmetics/intervals.py,
bionumpy/arithmetics/similarity_measures.py and bionumpy/genomic_data/geometry.py.

Element-wise NumPy expressions over equally shaped arrays are read per element: the array leaves
`intervals.start`, `stops[:-1]`, `starts[1:]` ... are renamed (by their exact source text, so a changed slice
leaves the subset) to scalar parameters.  Everything outside the small subset raises Unsupported and the
definition is emitted as `unit` (the bridge lemma then fails to type-check): fail closed, never a guess.
"""
import ast
import os

from translate.py2coq import Kernel, Unsupported, find_function, src_of

REPO = os.environ.get('VERIF_REPO', '/repo')
CMP = {ast.Lt: '<?', ast.LtE: '<=?', ast.Gt: '>?', ast.GtE: '>=?', ast.Eq: '=?'}


def parse(rel):
    return ast.parse(open(os.path.join(REPO, rel)).read())


class K(Kernel):
    """Kernel + boolean expressions, np.where on a named boolean, typed definitions."""

    def __init__(self, func, renames, bools=()):
        super().__init__(func, renames)
        self.bools = set(bools)          # Coq parameter names of type bool

    def expr(self, node, params, deps):
        if isinstance(node, ast.Call) and src_of(node.func) == 'np.where' and len(node.args) == 3 and not node.keywords:
            c = node.args[0]
            s = src_of(c)
            name = self.renames.get(s, s if isinstance(c, ast.Name) else None)
            if name in self.bools:
                return '(if %s then %s else %s)' % (name, self.expr(node.args[1], params, deps), self.expr(node.args[2], params, deps))
        return super().expr(node, params, deps)

    def bexpr(self, node, params):
        s = src_of(node)
        if s in self.renames and self.renames[s] in self.bools:
            return self.renames[s]
        if isinstance(node, ast.Name) and node.id in self.bools and node.id in params:
            return node.id
        if isinstance(node, ast.Compare) and len(node.ops) == 1:
            deps = []
            l = self.expr(node.left, params, deps)
            r = self.expr(node.comparators[0], params, deps)
            if deps:
                raise Unsupported('comparison reads locals %s' % deps)
            if type(node.ops[0]) in CMP:
                return '(%s %s %s)' % (l, CMP[type(node.ops[0])], r)
            if isinstance(node.ops[0], ast.NotEq):
                return '(negb (%s =? %s))' % (l, r)
        if isinstance(node, ast.BinOp) and isinstance(node.op, ast.BitAnd):
            return '(andb %s %s)' % (self.bexpr(node.left, params), self.bexpr(node.right, params))
        if isinstance(node, ast.BinOp) and isinstance(node.op, ast.BitOr):
            return '(orb %s %s)' % (self.bexpr(node.left, params), self.bexpr(node.right, params))
        if isinstance(node, ast.UnaryOp) and isinstance(node.op, ast.Invert):
            return '(negb %s)' % self.bexpr(node.operand, params)
        raise Unsupported('boolean expression outside the subset: %s' % s)

    def zexpr(self, node, params):
        deps = []
        t = self.expr(node, params, deps)
        if deps:
            raise Unsupported('expression reads locals %s: %s' % (deps, src_of(node)))
        return t

    def sig(self, params):
        return ' '.join('(%s : %s)' % (p, 'bool' if p in self.bools else 'Z') for p in params)

    def zdef(self, name, params, node):
        return 'Definition %s %s : Z :=\n  %s.\n' % (name, self.sig(params), self.zexpr(node, params))

    def bdef(self, name, params, node):
        return 'Definition %s %s : bool :=\n  %s.\n' % (name, self.sig(params), self.bexpr(node, params))

    def local(self, name):
        v = self.assigns.get(name)
        if not v or len(v) != 1 or v[0] is None:
            raise Unsupported('local %r is not assigned exactly once by a plain assignment' % name)
        return v[0]


def the_call(func, names, what):
    found = [n for n in ast.walk(func) if isinstance(n, ast.Call) and src_of(n.func) in names]
    if len(found) != 1:
        raise Unsupported('%s: expected exactly one call to %s, found %d' % (what, '/'.join(names), len(found)))
    return found[0]


def kw(call, key):
    for k in call.keywords:
        if k.arg == key:
            return k.value
    raise Unsupported('no keyword %s in %s' % (key, src_of(call)))


def the_return(func):
    rets = [n for n in ast.walk(func) if isinstance(n, ast.Return)]
    if len(rets) != 1 or rets[0].value is None:
        raise Unsupported('%s: expected exactly one return with a value' % func.name)
    return rets[0].value


def strlist(xs):
    return '[' + '; '.join('"%s"%%string' % x for x in xs) + ']'


def emit(defs, name, fn):
    try:
        defs.append(fn())
    except Unsupported as e:
        defs.append('(* NOT TRANSLATED: %s *)\nDefinition %s : unit := tt.\n' % (str(e).replace('*)', '* )'), name))
    except Exception as e:
        defs.append('(* NOT TRANSLATED: %s: %s *)\nDefinition %s : unit := tt.\n' % (type(e).__name__, str(e).replace('*)', '* )'), name))


def attr_names(tuple_node, owner):
    """('stop','start','chromosome') for (owner.stop, owner.start, owner.chromosome)."""
    if not isinstance(tuple_node, ast.Tuple):
        raise Unsupported('lexsort argument is not a tuple: %s' % src_of(tuple_node))
    out = []
    for e in tuple_node.elts:
        if not (isinstance(e, ast.Attribute) and src_of(e.value) == owner):
            raise Unsupported('lexsort key %s is not a column of %s' % (src_of(e), owner))
        out.append(e.attr)
    return out


def gen():
    rel = 'bionumpy/arithmetics/intervals.py'
    tree = parse(rel)
    defs = ['From Coq Require Import List Bool.\nImport ListNotations.\n']

    # ------------------------------------------------------------------ clip (intervals.py and Geometry.clip)
    ren_clip = {'intervals.start': 'start', 'intervals.stop': 'stop', 'chrom_sizes': 'size'}

    def clip_defs(tr, qual, prefix):
        def one(key):
            k = K(find_function(tr, qual), ren_clip)
            call = the_call(k.func, ('replace', 'dataclasses.replace'), qual)
            if src_of(call.args[0]) != 'intervals' or len(call.args) != 1 or sorted(x.arg for x in call.keywords) != ['start', 'stop']:
                raise Unsupported('%s: replace(...) does not set exactly start and stop of intervals' % qual)
            return k.zdef('%s_%s' % (prefix, key), ['start', 'stop', 'size'], kw(call, key))
        emit(defs, prefix + '_start', lambda: one('start'))
        emit(defs, prefix + '_stop', lambda: one('stop'))
    clip_defs(tree, 'clip', 'gen_clip')
    try:
        gtree = parse('bionumpy/genomic_data/geometry.py')
    except Exception:
        gtree = ast.parse('')
    clip_defs(gtree, 'Geometry.clip', 'gen_geom_clip')

    # ------------------------------------------------------------------ extend_to_size
    ren_ext = {'intervals.start': 'start', 'intervals.stop': 'stop', 'fragment_length': 'frag', 'chromosome_size': 'size',
               'is_forward': 'is_forward'}
    PE = ['is_forward', 'start', 'stop', 'frag', 'size']

    def ext(key):
        k = K(find_function(tree, 'extend_to_size'), ren_ext, bools=['is_forward'])
        call = the_call(k.func, ('replace', 'dataclasses.replace'), 'extend_to_size')
        if src_of(call.args[0]) != 'intervals' or len(call.args) != 1 or sorted(x.arg for x in call.keywords) != ['start', 'stop']:
            raise Unsupported('extend_to_size: replace(...) does not set exactly start and stop of intervals')
        v = kw(call, key)
        if not isinstance(v, ast.Name):
            raise Unsupported('extend_to_size: %s= is not a local name' % key)
        return k.zdef('gen_extend_' + key, PE, k.local(v.id))
    emit(defs, 'gen_extend_start', lambda: ext('start'))
    emit(defs, 'gen_extend_stop', lambda: ext('stop'))

    def ext_symbol():
        k = K(find_function(tree, 'extend_to_size'), {})
        v = k.local('is_forward')
        if not (isinstance(v, ast.Compare) and len(v.ops) == 1 and isinstance(v.ops[0], ast.Eq)
                and src_of(v.left) in ('intervals.strand.ravel()', 'intervals.strand')
                and isinstance(v.comparators[0], ast.Constant) and isinstance(v.comparators[0].value, str)):
            raise Unsupported('is_forward is not `intervals.strand.ravel() == "<symbol>"`')
        return 'Definition gen_extend_forward_symbol : string := "%s"%%string.\n' % v.comparators[0].value
    emit(defs, 'gen_extend_forward_symbol', ext_symbol)

    # ------------------------------------------------------------------ merge_intervals
    def merge_func():
        return find_function(tree, 'merge_intervals')

    def merge_guarded(target, op, name, var):
        """`if distance > 0: <target> <op>= distance`  ->  per-element  if d >? 0 then x <op> d else x."""
        f = merge_func()
        hits = []
        for n in ast.walk(f):
            if isinstance(n, ast.If) and not n.orelse and len(n.body) == 1 and isinstance(n.body[0], ast.AugAssign):
                a = n.body[0]
                if src_of(a.target) == target:
                    hits.append((n, a))
        others = [n for n in ast.walk(f) if isinstance(n, ast.AugAssign) and src_of(n.target) == target]
        if len(hits) != 1 or len(others) != 1:
            raise Unsupported('merge_intervals: expected exactly one guarded update of %s' % target)
        n, a = hits[0]
        if not isinstance(a.op, op) or src_of(a.value) != 'distance':
            raise Unsupported('merge_intervals: update of %s is not `%s= distance`' % (target, '+' if op is ast.Add else '-'))
        k = K(f, {'distance': 'd'})
        cond = k.bexpr(n.test, ['d'])
        sym = '+' if op is ast.Add else '-'
        return 'Definition %s (d : Z) (%s : Z) : Z :=\n  if %s then (%s %s d) else %s.\n' % (name, var, cond, var, sym, var)
    emit(defs, 'gen_merge_shift', lambda: merge_guarded('stops', ast.Add, 'gen_merge_shift', 'running_max_stop'))
    emit(defs, 'gen_merge_unshift', lambda: merge_guarded('new_interval.stop', ast.Sub, 'gen_merge_unshift', 'stop'))

    def merge_new_run():
        f = merge_func()
        k = K(f, {'intervals.start[1:]': 'next_start', 'stops[:-1]': 'shifted_prev_stop'})
        # stops must be the running maximum of the stops
        stops_assigns = [n for n in ast.walk(f) if isinstance(n, ast.Assign) and src_of(n.targets[0]) == 'stops']
        if len(stops_assigns) != 1 or src_of(stops_assigns[0].value) != 'np.maximum.accumulate(intervals.stop)':
            raise Unsupported('merge_intervals: stops is not np.maximum.accumulate(intervals.stop)')
        v = [n for n in ast.walk(f) if isinstance(n, ast.Assign) and src_of(n.targets[0]) == 'valid_start_mask']
        if len(v) != 1:
            raise Unsupported('merge_intervals: valid_start_mask not assigned exactly once')
        # the masks that select starts and stops
        want = {'start_mask': 'np.concatenate(([True], valid_start_mask))', 'stop_mask': 'np.concatenate((valid_start_mask, [True]))',
                'new_interval': 'intervals[start_mask]', 'new_interval.stop': 'stops[stop_mask]'}
        for tgt, val in want.items():
            a = [n for n in ast.walk(f) if isinstance(n, ast.Assign) and src_of(n.targets[0]) == tgt]
            if len(a) != 1 or src_of(a[0].value) != val:
                raise Unsupported('merge_intervals: %s is not %s' % (tgt, val))
        return k.bdef('gen_merge_new_run', ['next_start', 'shifted_prev_stop'], v[0].value)
    emit(defs, 'gen_merge_new_run', merge_new_run)

    def merge_assert(index, name, renames, params):
        f = merge_func()
        asserts = [n for n in f.body if isinstance(n, ast.Assert)]
        if len(asserts) != 2:
            raise Unsupported('merge_intervals: expected two assert statements, found %d' % len(asserts))
        t = asserts[index].test
        if not (isinstance(t, ast.Call) and src_of(t.func) == 'np.all' and len(t.args) == 1 and not t.keywords):
            raise Unsupported('merge_intervals: assertion is not np.all(<comparison>)')
        return K(f, renames).bdef(name, params, t.args[0])
    emit(defs, 'gen_merge_sorted_pair', lambda: merge_assert(0, 'gen_merge_sorted_pair',
         {'intervals.start[:-1]': 'this_start', 'intervals.start[1:]': 'next_start'}, ['this_start', 'next_start']))
    emit(defs, 'gen_merge_assert', lambda: merge_assert(1, 'gen_merge_assert',
         {'new_interval.start[1:]': 'next_start', 'new_interval.stop[:-1]': 'prev_stop'}, ['next_start', 'prev_stop']))

    # ------------------------------------------------------------------ count_overlap
    def overlap_term():
        f = find_function(tree, 'count_overlap')
        k = K(f, {'stops[:-1]': 'stop_i', 'starts[1:]': 'start_next'})
        r = the_return(f)
        if not (isinstance(r, ast.Call) and src_of(r.func) == 'np.sum' and len(r.args) == 1 and not r.keywords):
            raise Unsupported('count_overlap does not return np.sum(<terms>)')
        return k.zdef('gen_count_overlap_term', ['stop_i', 'start_next'], r.args[0])
    emit(defs, 'gen_count_overlap_term', overlap_term)

    def overlap_sorted():
        f = find_function(tree, 'count_overlap')
        srt = []
        for n in f.body:
            if isinstance(n, ast.Expr) and isinstance(n.value, ast.Call) and isinstance(n.value.func, ast.Attribute) \
                    and n.value.func.attr == 'sort' and isinstance(n.value.func.value, ast.Name) and not n.value.args:
                srt.append(n.value.func.value.id)
        want = {'starts': 'np.concatenate([intervals_a.start, intervals_b.start])',
                'stops': 'np.concatenate([intervals_a.stop, intervals_b.stop])'}
        for tgt, val in want.items():
            a = [n for n in ast.walk(f) if isinstance(n, ast.Assign) and src_of(n.targets[0]) == tgt]
            if len(a) != 1 or src_of(a[0].value) != val:
                raise Unsupported('count_overlap: %s is not %s' % (tgt, val))
        return 'Definition gen_count_overlap_sorted : list string := %s.\n' % strlist(srt)
    emit(defs, 'gen_count_overlap_sorted', overlap_sorted)

    # ------------------------------------------------------------------ intersect
    def intersect_keep():
        f = find_function(tree, 'intersect')
        k = K(f, {'stops[:-1]': 'stop_i', 'all_intervals.start[1:]': 'start_next'})
        return k.bdef('gen_intersect_keep', ['stop_i', 'start_next'], k.local('mask'))
    emit(defs, 'gen_intersect_keep', intersect_keep)

    def intersect_piece():
        f = find_function(tree, 'intersect')
        want = [('all_intervals', 'np.concatenate([intervals_a, intervals_b])'),
                ('all_intervals', "all_intervals[np.argsort(all_intervals.start, kind='mergesort')]"),
                ('stops', "np.sort(all_intervals.stop, kind='mergesort')"),
                ('result', 'all_intervals[1:][mask]'), ('result.stop', 'stops[:-1][mask]')]
        got = [(src_of(n.targets[0]), src_of(n.value)) for n in f.body if isinstance(n, ast.Assign) and len(n.targets) == 1]
        got = [g for g in got if g[0] != 'mask']
        if got != want or src_of(the_return(f)) != 'result':
            raise Unsupported('intersect: statements differ from sort-by-start / sorted stops / pieces (start[i+1], stops[i]): %s' % got)
        return 'Definition gen_intersect_piece (stop_i : Z) (start_next : Z) : Z * Z :=\n  (start_next, stop_i).\n'
    emit(defs, 'gen_intersect_piece', intersect_piece)

    # ------------------------------------------------------------------ get_boolean_mask: which merged intervals are kept
    def mask_keep():
        f = find_function(tree, 'get_boolean_mask')
        k = K(f, {'merged.start': 'start', 'merged.stop': 'stop'})
        return k.bdef('gen_mask_keep', ['start', 'stop'], k.local('m'))
    emit(defs, 'gen_mask_keep', mask_keep)

    # ------------------------------------------------------------------ sort keys (primary key first)
    def lex_keys(tr, qual, owner, name):
        f = find_function(tr, qual)
        call = the_call(f, ('np.lexsort',), qual)
        if len(call.args) != 1 or call.keywords:
            raise Unsupported('%s: np.lexsort is not called with one tuple' % qual)
        keys = attr_names(call.args[0], owner)
        return 'Definition %s : list string := %s.\n' % (name, strlist(reversed(keys)))     # lexsort: last key is primary
    emit(defs, 'gen_sort_lex_keys', lambda: lex_keys(tree, 'sort_intervals', 'intervals', 'gen_sort_lex_keys'))
    emit(defs, 'gen_geom_sort_keys', lambda: lex_keys(gtree, 'Geometry.sort', 'global_intervals', 'gen_geom_sort_keys'))

    def tuple_keys():
        f = find_function(tree, 'sort_intervals')
        call = the_call(f, ('sorted',), 'sort_intervals')
        if len(call.args) != 1 or call.keywords or not isinstance(call.args[0], ast.GeneratorExp):
            raise Unsupported('sort_intervals: sorted(...) is not applied to one generator without key=')
        g = call.args[0]
        if not isinstance(g.elt, ast.Tuple) or len(g.generators) != 1 or src_of(g.generators[0].iter) != 'enumerate(intervals)' \
                or src_of(g.generators[0].target) != '(i, interval)' or g.generators[0].ifs:
            raise Unsupported('sort_intervals: generator is not a tuple over enumerate(intervals)')
        names = {'chromosome_key_function(interval.chromosome.to_string())': 'chromosome', 'interval.start': 'start',
                 'interval.stop': 'stop', 'i': 'index'}
        keys = []
        for e in g.elt.elts:
            if src_of(e) not in names:
                raise Unsupported('sort_intervals: unknown sort key %s' % src_of(e))
            keys.append(names[src_of(e)])
        return 'Definition gen_sort_tuple_keys : list string := %s.\n' % strlist(keys)
    emit(defs, 'gen_sort_tuple_keys', tuple_keys)

    # ------------------------------------------------------------------ similarity_measures.py
    try:
        stree = parse('bionumpy/arithmetics/similarity_measures.py')
    except Exception:
        stree = ast.parse('')

    def table_cell(i, j):
        f = find_function(stree, 'get_contingency_table')
        k = K(f, {'boolean_a': 'in_a', 'boolean_b': 'in_b'}, bools=['in_a', 'in_b'])
        for nm, val in (('boolean_a', 'get_boolean_mask(intervals_a, sequence_length)'), ('boolean_b', 'get_boolean_mask(intervals_b, sequence_length)')):
            if src_of(k.local(nm)) != val:
                raise Unsupported('get_contingency_table: %s is not %s' % (nm, val))
        r = the_return(f)
        if not (isinstance(r, ast.Call) and src_of(r.func) == 'np.array' and len(r.args) == 1 and isinstance(r.args[0], ast.List)
                and len(r.args[0].elts) == 2 and all(isinstance(x, ast.List) and len(x.elts) == 2 for x in r.args[0].elts)):
            raise Unsupported('get_contingency_table does not return a 2x2 np.array literal')
        cell = r.args[0].elts[i].elts[j]
        if not (isinstance(cell, ast.Call) and src_of(cell.func) == 'np.sum' and len(cell.args) == 1 and not cell.keywords):
            raise Unsupported('contingency cell is not np.sum(<mask>)')

        def inline(n):        # not_a / not_b are locals: substitute their definitions
            if isinstance(n, ast.Name) and n.id in ('not_a', 'not_b'):
                return inline(k.local(n.id))
            if isinstance(n, ast.BinOp):
                return ast.BinOp(left=inline(n.left), op=n.op, right=inline(n.right))
            if isinstance(n, ast.UnaryOp):
                return ast.UnaryOp(op=n.op, operand=inline(n.operand))
            return n
        return k.bdef('gen_table_%d%d' % (i, j), ['in_a', 'in_b'], inline(cell.args[0]))
    for i in (0, 1):
        for j in (0, 1):
            emit(defs, 'gen_table_%d%d' % (i, j), (lambda i=i, j=j: table_cell(i, j)))

    def fraction(fname, part):
        f = find_function(stree, fname)
        k = K(f, {})
        # ((a, b), (c, d)) = get_contingency_table(...)
        unpack = [n for n in ast.walk(f) if isinstance(n, ast.Assign) and src_of(n.targets[0]) == '((a, b), (c, d))']
        if len(unpack) != 1 or not src_of(unpack[0].value).startswith('get_contingency_table('):
            raise Unsupported('%s: the table is not unpacked as ((a, b), (c, d))' % fname)
        r = the_return(f)
        if not (isinstance(r, ast.Call) and src_of(r.func) == 'float' and len(r.args) == 1 and isinstance(r.args[0], ast.BinOp)
                and isinstance(r.args[0].op, ast.Div)):
            raise Unsupported('%s does not return float(<numerator> / <denominator>)' % fname)
        node = r.args[0].left if part == 'num' else r.args[0].right
        return k.define('gen_%s_%s' % (fname, part), ['a', 'b', 'c', 'd'], node)
    for fname in ('jaccard', 'forbes'):
        for part in ('num', 'den'):
            emit(defs, 'gen_%s_%s' % (fname, part), (lambda fname=fname, part=part: fraction(fname, part)))
    return rel + ' (+ similarity_measures.py, genomic_data/geometry.py)', defs

"""gen_c01 — regenerates coq/theories/Gen/C01.v from the CURRENT bionumpy/io/parser.py, one_line_buffer.py,
fastq_buffer.py, delimited_buffers.py and npdataclassreader.py: the decision rules and the arithmetic of the
chunked reader that the theorems of Props/C01.v and Props/C15.v are about.

Reading conventions (trusted, fail-closed): an `if <cond>:` / assignment right-hand side is translated as a Coq
bool / Z expression over named leaves (exact source text of a leaf -> parameter name); NumPy element-wise
expressions are read per element; slices `a[s:e:k]` are emitted as the triple (s, e, k) with a missing bound as -1000
("None"); `ord('c')` of a literal is folded.  Structural facts that are not arithmetic (which statement follows
which) are matched exactly and otherwise raise Unsupported -> the definition is emitted as `unit` and the bridge
lemma stops type-checking.
"""
import ast
import os

from translate.py2coq import Unsupported, find_function, src_of
from translate.gen_c08 import K, emit

REPO = os.environ.get('VERIF_REPO', '/repo')
NONE = -1000


def parse(rel):
    return ast.parse(open(os.path.join(REPO, rel)).read())


class K1(K):
    def expr(self, node, params, deps):
        if isinstance(node, ast.Call) and src_of(node.func) == 'ord' and len(node.args) == 1 \
                and isinstance(node.args[0], ast.Constant) and isinstance(node.args[0].value, str) and len(node.args[0].value) == 1:
            return str(ord(node.args[0].value))
        return super().expr(node, params, deps)


def assign_to(func, target_src):
    found = [n for n in ast.walk(func) if isinstance(n, ast.Assign) and len(n.targets) == 1 and src_of(n.targets[0]) == target_src]
    if len(found) != 1:
        raise Unsupported('expected exactly one assignment to %s, found %d' % (target_src, len(found)))
    return found[0].value


def if_with_body(func, body_src):
    found = [n for n in ast.walk(func) if isinstance(n, ast.If) and len(n.body) >= 1 and src_of(n.body[0]) == body_src]
    if len(found) != 1:
        raise Unsupported('expected exactly one `if` whose body starts with %r, found %d' % (body_src, len(found)))
    return found[0]


def call_args(func, callee_src):
    found = [n for n in ast.walk(func) if isinstance(n, ast.Call) and src_of(n.func) == callee_src]
    if len(found) != 1:
        raise Unsupported('expected exactly one call to %s, found %d' % (callee_src, len(found)))
    return found[0].args


def slice_triple(node, k, params):
    """Subscript with a Slice -> '(s, e, step)' over Z (missing -> NONE)."""
    if not (isinstance(node, ast.Subscript) and isinstance(node.slice, ast.Slice)):
        raise Unsupported('not a slice: %s' % src_of(node))
    parts = []
    for p in (node.slice.lower, node.slice.upper, node.slice.step):
        parts.append(str(NONE) if p is None else k.zexpr(p, params))
    return '(%s, %s, %s)' % tuple(parts)


def gen():
    defs = []
    tr = parse('bionumpy/io/parser.py')

    # ---- NumpyFileReader._get_buffer: end of file is inferred from a short read
    def get_buffer():
        return find_function(tr, 'NumpyFileReader._get_buffer')
    ren = {'bytes_read': 'bytes_read', 'min_chunk_size': 'k'}
    emit(defs, 'gen_is_finished', lambda: K1(get_buffer(), ren).bdef('gen_is_finished', ['bytes_read', 'k'], assign_to(get_buffer(), 'self._is_finished')))
    emit(defs, 'gen_read_nothing', lambda: K1(get_buffer(), ren).bdef('gen_read_nothing', ['bytes_read'], if_with_body(get_buffer(), 'return None').test))
    def terminated_only_when_finished():
        i = if_with_body(get_buffer(), 'a, bytes_read = self.__add_newline_to_end(a, bytes_read)')
        if src_of(i.test) != 'self._is_finished' or i.orelse:
            raise Unsupported('the terminator is not appended exactly when self._is_finished')
        return 'Definition gen_terminate_iff_finished : bool := true.\n'
    emit(defs, 'gen_terminate_iff_finished', terminated_only_when_finished)

    # ---- __add_newline_to_end: a missing final line break, then the new-entry marker
    def add_nl():
        return find_function(tr, 'NumpyFileReader.__add_newline_to_end')
    def needs_newline():
        f = add_nl()
        i = if_with_body(f, 'chunk = np.append(chunk, np.uint8(ord(\'\\n\')))')
        return K1(f, {'chunk[bytes_read - 1]': 'last_byte'}).bdef('gen_needs_newline', ['last_byte'], i.test)
    emit(defs, 'gen_needs_newline', needs_newline)
    def marker_rule():
        f = add_nl()
        ifs = [n for n in f.body if isinstance(n, ast.If)]
        if len(ifs) != 2 or src_of(ifs[1].test) != "hasattr(self._buffer_type, '_new_entry_marker')":
            raise Unsupported('marker rule changed: %s' % [src_of(i.test) for i in ifs])
        if src_of(ifs[1].body[0]) != 'chunk = np.append(chunk, np.uint8(ord(self._buffer_type._new_entry_marker)))':
            raise Unsupported('marker append changed')
        # order: newline first, marker second
        return 'Definition gen_terminator_order : list string := ["newline"%string; "marker"%string].\n'
    emit(defs, 'gen_terminator_order', marker_rule)

    # ---- read_chunk: the tail is re-read (seek) or kept (prepend); lines are counted
    def read_chunk():
        return find_function(tr, 'NumpyFileReader.read_chunk')
    rc_ren = {'buff.size': 'buff_size', 'chunk.size': 'chunk_size'}
    emit(defs, 'gen_seek_offset', lambda: K1(read_chunk(), rc_ren).zdef('gen_seek_offset', ['buff_size', 'chunk_size'], call_args(read_chunk(), 'self._file_obj.seek')[0]))
    def prepend_slice():
        v = assign_to_nonempty(read_chunk(), 'self._prepend')
        return 'Definition gen_prepend_slice (buff_size : Z) : Z * Z * Z :=\n  %s.\n' % slice_triple(v, K1(read_chunk(), rc_ren), ['buff_size'])
    def assign_to_nonempty(func, target):
        found = [n.value for n in ast.walk(func) if isinstance(n, ast.Assign) and len(n.targets) == 1
                 and src_of(n.targets[0]) == target and not (isinstance(n.value, ast.List) and not n.value.elts)]
        if len(found) != 1:
            raise Unsupported('expected one non-empty assignment to %s' % target)
        return found[0]
    emit(defs, 'gen_prepend_slice', prepend_slice)
    def tail_rule():
        f = read_chunk()
        i = [n for n in ast.walk(f) if isinstance(n, ast.If) and src_of(n.test) == 'not self._is_finished']
        if len(i) != 1:
            raise Unsupported('tail handling is not guarded by `not self._is_finished`')
        inner = i[0].body[0]
        if not (isinstance(inner, ast.If) and src_of(inner.test) == 'not self._do_prepend'
                and src_of(inner.body[0]) == 'self._file_obj.seek(buff.size - chunk.size, 1)'
                and src_of(inner.orelse[0]) == 'self._prepend = chunk[buff.size:]'):
            raise Unsupported('seek / prepend branches changed')
        return 'Definition gen_tail_rule : list string := ["unless finished"%string; "seek back"%string; "else keep tail"%string].\n'
    emit(defs, 'gen_tail_rule', tail_rule)
    def eof_rule():
        f = read_chunk()
        # the inner `if reached_end or not len(temp_chunks): [check that nothing but white space is pending]; return None`
        found = [n for n in ast.walk(f) if isinstance(n, ast.If) and src_of(n.body[-1]) == 'return None']
        if len(found) != 1:
            raise Unsupported('expected exactly one `if` ending in `return None`, found %d' % len(found))
        i = found[0]
        if src_of(i.test) != 'reached_end or not len(temp_chunks)':
            raise Unsupported('end-of-file give-up condition changed: %s' % src_of(i.test))
        pre = i.body[:-1]
        if pre and not (len(pre) == 1 and isinstance(pre[0], ast.If) and src_of(pre[0].test) == 'len(temp_chunks)' and len(pre[0].body) == 1
                        and src_of(pre[0].body[0]).replace(' ', '') == 'self.__check_nothing_left(np.concatenate(temp_chunks),self.n_lines_read)'
                        and not pre[0].orelse):
            raise Unsupported('unexpected statement before the end-of-file `return None`')
        return ('Definition gen_eof_give_up (reached_end : bool) (n_pending : Z) : bool :=\n'
                '  orb reached_end (n_pending =? 0).\n')
    emit(defs, 'gen_eof_give_up', eof_rule)
    def lines_counted():
        f = read_chunk()
        aug = [n for n in ast.walk(f) if isinstance(n, ast.AugAssign) and src_of(n.target) == 'self.n_lines_read']
        if len(aug) != 1 or not isinstance(aug[0].op, ast.Add) or src_of(aug[0].value) != 'buff.n_lines':
            raise Unsupported('n_lines_read bookkeeping changed')
        exc = [n for n in ast.walk(f) if isinstance(n, ast.AugAssign) and src_of(n.target) == 'e.line_number']
        if len(exc) != 2 or any(src_of(n.value) != 'self.n_lines_read' or not isinstance(n.op, ast.Add) for n in exc):
            raise Unsupported('line-number offset of FormatException changed')
        return ('Definition gen_lines_after (lines_before buff_lines : Z) : Z := lines_before + buff_lines.\n'
                'Definition gen_reported_line (local_line lines_before : Z) : Z := local_line + lines_before.\n')
    emit(defs, 'gen_lines_after', lines_counted)
    def incomplete_rule():
        # end of file: whatever follows the last complete entry, apart from white space and the format's entry
        # marker, is reported as an incomplete entry (03a5b64).  Three call sites of __check_nothing_left.
        chk = find_function(tr, 'NumpyFileReader.__check_nothing_left')
        src = ast.unparse(chk)
        lits = [n.value for n in ast.walk(chk) if isinstance(n, ast.Constant) and isinstance(n.value, str) and set(n.value) <= set(' \t\r\n') and n.value]
        if len(lits) != 1:
            raise Unsupported('ignored white-space literal not found')
        if "hasattr(self._buffer_type, '_new_entry_marker')" not in src or 'ignored.append(ord(self._buffer_type._new_entry_marker))' not in src:
            raise Unsupported('the entry marker is not added to the ignored bytes')
        if 'np.any(~np.isin(' not in src or 'raise FormatException' not in src:
            raise Unsupported('the leftover test is not `any byte outside the ignored set -> FormatException`')
        calls = {}
        for fn in ('NumpyFileReader.read_chunk', 'NumpyFileReader.read'):
            f = find_function(tr, fn)
            cs = [n for n in ast.walk(f) if isinstance(n, ast.Call) and src_of(n.func).endswith('__check_nothing_left')]
            calls[fn] = [(src_of(c.args[0]).replace(' ', ''), src_of(c.args[1]).replace(' ', '')) for c in cs]
        want_rc = {('chunk[buff.size:]', 'self.n_lines_read+buff.n_lines'), ('np.concatenate(temp_chunks)', 'self.n_lines_read')}
        if set(calls['NumpyFileReader.read_chunk']) != want_rc or len(calls['NumpyFileReader.read_chunk']) != 2:
            raise Unsupported('read_chunk end-of-file checks changed: %s' % calls['NumpyFileReader.read_chunk'])
        if calls['NumpyFileReader.read'] != [('chunk[buff.size:]', 'self.n_lines_read+buff.n_lines')]:
            raise Unsupported('read() end-of-file check changed: %s' % calls['NumpyFileReader.read'])
        # the delivered-buffer check sits in the branch taken when the file is finished, before n_lines_read is advanced
        f = find_function(tr, 'NumpyFileReader.read_chunk')
        ifs = [n for n in ast.walk(f) if isinstance(n, ast.If) and src_of(n.test) == 'not self._is_finished' and n.orelse]
        if len(ifs) != 1 or not src_of(ifs[0].orelse[0]).replace(' ', '').startswith('self.__check_nothing_left(chunk[buff.size:]'):
            raise Unsupported('the delivered-buffer check is not the else-branch of `if not self._is_finished`')
        body = f.body
        pos = {src_of(st).replace(' ', '')[:40]: i for i, st in enumerate(body)}
        return ('Definition gen_ignored_bytes : list Z := [%s].\n'
                'Definition gen_incomplete_line (lines_before buff_lines : Z) : Z := lines_before + buff_lines.\n'
                'Definition gen_pending_incomplete_line (lines_before : Z) : Z := lines_before.\n'
                % '; '.join(str(ord(c)) for c in lits[0]))
    emit(defs, 'gen_incomplete_line', incomplete_rule)

    # ---- OneLineBuffer.from_raw_buffer / _validate, FastQBuffer._validate
    to = parse('bionumpy/io/one_line_buffer.py')
    def frb():
        return find_function(to, 'OneLineBuffer.from_raw_buffer')
    ol_ren = {'cls.n_lines_per_entry': 'n', 'n_lines_per_entry': 'n', 'n_lines': 'n_lines', 'new_lines[-1]': 'last_kept'}
    emit(defs, 'gen_oneline_incomplete', lambda: K1(frb(), ol_ren).bdef('gen_oneline_incomplete', ['n_lines', 'n'], if_with_body(frb(), "raise IncompleteEntryException('No complete entry in buffer. Try increasing chunk_size.')").test))
    def kept():
        v = [n.value for n in ast.walk(frb()) if isinstance(n, ast.Assign) and src_of(n.targets[0]) == 'new_lines' and isinstance(n.value, ast.Subscript)]
        if len(v) != 1:
            raise Unsupported('kept-lines slice not found')
        k = K1(frb(), ol_ren)
        t = slice_triple(v[0], k, ['n_lines', 'n'])
        return 'Definition gen_oneline_kept (n_lines n : Z) : Z * Z * Z :=\n  %s.\n' % t
    emit(defs, 'gen_oneline_kept', kept)
    def size():
        v = [n.value for n in ast.walk(frb()) if isinstance(n, ast.Assign) and src_of(n.targets[0]) == 'data']
        if len(v) != 1:
            raise Unsupported('data slice not found')
        return 'Definition gen_oneline_size (last_kept : Z) : Z * Z * Z :=\n  %s.\n' % slice_triple(v[0], K1(frb(), ol_ren), ['last_kept'])
    emit(defs, 'gen_oneline_size', size)
    def validate():
        return find_function(to, 'OneLineBuffer._validate')
    def header_slice():
        f = validate()
        v = assign_to(f, 'header_idxs')
        if not (isinstance(v, ast.BinOp) and isinstance(v.op, ast.Add) and src_of(v.right) == '1'):
            raise Unsupported('header_idxs is not <slice> + 1')
        return 'Definition gen_header_slice (n : Z) : Z * Z * Z :=\n  %s.\n' % slice_triple(v.left, K1(f, ol_ren), ['n'])
    emit(defs, 'gen_header_slice', header_slice)
    def header_line():
        f = validate()
        vals = [n.value for n in ast.walk(f) if isinstance(n, ast.Assign) and src_of(n.targets[0]) == 'line_number']
        if len(vals) != 2 or src_of(vals[0]) != '0':
            raise Unsupported('line_number assignments changed')
        k = K1(f, dict(ol_ren, **{'np.flatnonzero(data[header_idxs] != header)[0]': 'i'}))
        return k.zdef('gen_header_line', ['i', 'n'], vals[1])
    emit(defs, 'gen_header_line', header_line)
    def first_record_rule():
        f = validate()
        i = [n for n in ast.walk(f) if isinstance(n, ast.If) and src_of(n.test) == 'data[0] != header']
        if len(i) != 1 or src_of(i[0].body[0]) != 'line_number = 0':
            raise Unsupported('first-record rule changed')
        return 'Definition gen_first_record_line : Z := 0.\n'
    emit(defs, 'gen_first_record_line', first_record_rule)
    tf = parse('bionumpy/io/fastq_buffer.py')
    def fq_validate():
        return find_function(tf, 'FastQBuffer._validate')
    def plus_slice():
        f = fq_validate()
        subs = [n for n in ast.walk(f) if isinstance(n, ast.Subscript) and src_of(n.value) == 'new_lines' and isinstance(n.slice, ast.Slice)]
        trip = set(slice_triple(s, K1(f, ol_ren), ['n']) for s in subs)
        if len(trip) != 1:
            raise Unsupported('plus-line slice changed: %s' % trip)
        plus = [n for n in ast.walk(f) if isinstance(n, ast.Compare) and src_of(n.comparators[0]) == "'+'"]
        if not plus:
            raise Unsupported("'+' test not found")
        return 'Definition gen_plus_slice (n : Z) : Z * Z * Z :=\n  %s.\nDefinition gen_plus_symbol : Z := %d.\n' % (trip.pop(), ord('+'))
    emit(defs, 'gen_plus_slice', plus_slice)
    emit(defs, 'gen_plus_line', lambda: K1(fq_validate(), dict(ol_ren, entry_number='j')).zdef('gen_plus_line', ['j', 'n'], assign_to(fq_validate(), 'line_number')))
    def plus_precedence():
        # which violation is reported when a buffer has both a misplaced header and a missing '+':
        #   header_error = None; try: super()._validate(...) except FormatException as e: header_error = e
        #   if <plus violated>: ...; if header_error is None or line_number < header_error.line_number: raise <plus>
        #   if header_error is not None: raise header_error
        f = fq_validate()
        body = [st for st in f.body if not (isinstance(st, ast.Expr) and isinstance(st.value, ast.Constant))]
        tries = [st for st in body if isinstance(st, ast.Try)]
        if not (len(tries) == 1 and len(tries[0].body) == 1 and src_of(tries[0].body[0]).replace(' ', '') == 'super()._validate(data,new_lines)'
                and len(tries[0].handlers) == 1 and src_of(tries[0].handlers[0].type) == 'FormatException'
                and [src_of(x) for x in tries[0].handlers[0].body] == ['header_error = %s' % tries[0].handlers[0].name]
                and not tries[0].orelse and not tries[0].finalbody):
            raise Unsupported('header validation is not captured as header_error by a single try/except FormatException')
        last = body[-1]
        if not (isinstance(last, ast.If) and src_of(last.test) == 'header_error is not None' and src_of(last.body[0]) == 'raise header_error' and not last.orelse):
            raise Unsupported('the header error is not re-raised last')
        guards = [n for n in ast.walk(f) if isinstance(n, ast.If) and isinstance(n.body[0], ast.Raise) and 'header_error' in src_of(n.test) and n is not last]
        if len(guards) != 1:
            raise Unsupported('precedence guard not found')
        t = guards[0].test
        if not (isinstance(t, ast.BoolOp) and isinstance(t.op, ast.Or) and len(t.values) == 2 and src_of(t.values[0]) == 'header_error is None'):
            raise Unsupported('precedence guard is not `header_error is None or <comparison>`')
        k = K1(f, {'header_error.line_number': 'header_line', 'line_number': 'plus_line'})
        return k.bdef('gen_plus_wins', ['plus_line', 'header_line'], t.values[1])
    emit(defs, 'gen_plus_wins', plus_precedence)

    # ---- DelimitedBuffer.from_raw_buffer: cut after the last line break
    td = parse('bionumpy/io/delimited_buffers.py')
    def dfrb():
        return find_function(td, 'DelimitedBuffer.from_raw_buffer')
    emit(defs, 'gen_delim_size', lambda: K1(dfrb(), {'delimiters[entry_ends[-1]]': 'last_nl'}).zdef('gen_delim_size', ['last_nl'], assign_to(dfrb(), 'size')))
    def delim_nfields():
        f = find_function(td, 'DelimitedBuffer._get_n_fields')
        rets = [n for n in ast.walk(f) if isinstance(n, ast.Return)]
        if len(rets) != 1:
            raise Unsupported('_get_n_fields has several returns')
        return K1(f, {'entry_ends[0]': 'first_end'}).zdef('gen_delim_n_fields', ['first_end'], rets[0].value)
    emit(defs, 'gen_delim_n_fields', delim_nfields)

    # ---- NpDataclassReader.read_chunk: parse errors get the lines delivered before this chunk
    tn = parse('bionumpy/io/npdataclassreader.py')
    def reader_offset():
        f = find_function(tn, 'NpDataclassReader.read_chunk')
        first = f.body[1] if isinstance(f.body[0], ast.Expr) else f.body[0]
        if src_of(first) != 'n_lines_read = self._reader.n_lines_read':
            raise Unsupported('n_lines_read is not sampled before the chunk is read')
        aug = [n for n in ast.walk(f) if isinstance(n, ast.AugAssign) and src_of(n.target) == 'e.line_number']
        if len(aug) != 1 or src_of(aug[0].value) != 'n_lines_read' or not isinstance(aug[0].op, ast.Add):
            raise Unsupported('parse-error line offset changed')
        return 'Definition gen_parse_error_line (row lines_before : Z) : Z := row + lines_before.\n'
    emit(defs, 'gen_parse_error_line', reader_offset)
    return 'bionumpy/io/parser.py (+ one_line_buffer.py, fastq_buffer.py, delimited_buffers.py, npdataclassreader.py)', \
        ['From Coq Require Import List Bool.\nImport ListNotations.\n'] + defs

"""gen_c20 — regenerates coq/theories/Gen/C20.v: the effect program of every registered in-place-writing site of the
anchored code, extracted from the CURRENT tree by the fail-closed AST extractor of harness/props/c20.py
(class Extractor / Scope, extract_site).  The extractor reads the source through `inspect.getsource` of the modules
imported from the tree ($VERIF_REPO, which translate/run.py is given as PYTHONPATH by lib.coq_build).

Fail closed:
  * bionumpy not importable from that tree, extraction raising, an empty result, or an aliasing class without a
    run-time probe  ->  the site is emitted as `Definition gen_site_k : unit := tt` (with the reason as a comment);
    gen_site_table then does not type-check, so Gen/C20.v, Bridge/C20.v and Corr/C20.v stop compiling;
  * an operation the extractor cannot classify is NOT skipped: it is emitted as a write to every argument of the
    call plus an alias of all of them (a nested def / unknown statement: a write to everything in scope), so the
    program can only become less safe, and Bridge/C20.v (`gen_sites_safe`, vm_compute) rejects it if an input is
    reachable.  The names of such operations are listed in a comment next to the site.
"""
import os
import sys

ROOT = os.path.dirname(os.path.dirname(os.path.abspath(__file__)))
REPO = os.environ.get('VERIF_REPO', '/repo')

PRELUDE = ('From BNP Require Import Model.C20.\nFrom Coq Require Import List.\nImport ListNotations.\n'
           '(* effect programs of the in-place-writing sites; instruction set and checker: Model/C20.v *)\n')


def _clean(s):
    return str(s).replace('*)', '* )').replace('(*', '( *')


def gen():
    if ROOT not in sys.path:
        sys.path.insert(0, ROOT)
    real = os.path.realpath(REPO)
    sys.path.insert(0, real)
    defs = [PRELUDE]
    from harness.props import c20          # the one extractor, shared with the correspondence's `site` cases
    try:
        import bionumpy
        where = os.path.realpath(bionumpy.__file__)
        if not where.startswith(real + os.sep):
            raise ImportError('bionumpy imported from %s, not from %s' % (where, real))
        import_error = None
    except BaseException as e:          # a tree that does not import: every site fails closed
        import_error = '%s: %s' % (type(e).__name__, e)
    rows = []
    for sid in sorted(c20.SITES):
        spec = c20.SITES[sid]
        name = 'gen_site_%d' % sid
        head = '(* site %d: %s — %s *)\n' % (sid, spec['name'], _clean('; '.join(p for p, _ in spec['steps'])))
        try:
            if import_error:
                raise RuntimeError(import_error)
            e = c20.extract_site(sid)
            bad = [p for p in e['probes'] if p not in c20.PROBE_NAMES]
            if bad:
                raise RuntimeError('aliasing class without a run-time probe: %s' % bad)
            note = ''
            if e['unknown']:
                note = '(* unclassified operations, treated as writes to all their arguments: %s *)\n' % _clean(', '.join(e['unknown']))
            defs.append('%s%sDefinition %s : list instr :=\n  %s.\n' % (head, note, name, c20.prog_to_coq([tuple(i) for i in e['prog']])))
        except BaseException as ex:
            defs.append('%s(* NOT TRANSLATED: %s: %s *)\nDefinition %s : unit := tt.\n' % (head, type(ex).__name__, _clean(ex)[:300], name))
        rows.append('(%d%%Z, (%d%%nat, %s))' % (sid, spec['np'], name))
    defs.append('Definition gen_site_table : list (Z * (nat * list instr)) :=\n  [%s].\n' % ';\n   '.join(rows))
    return 'bionumpy/{io/strops,io/delimited_buffers,io/file_buffers,encodings/vcf_encoding,arithmetics/intervals,' \
           'bnpdataclass/lazybnpdataclass,sequence/translate,encoded_array}.py + round 6: arithmetics/bedgraph, io/buffers/sam, ' \
           'io/dump_csv, io/matrix_dump, io/multiline_buffer, io/named_text_buffer, io/one_line_buffer, sequence/position_weight_matrix, ' \
           'streams/*, util/*, variants/consensus, encodings/integer_encoding (harness/props/c20.py:SITES)', defs

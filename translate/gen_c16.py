"""gen_c16 — regenerates coq/theories/Gen/C16.v from the BAM code of the CURRENT source tree.

Kernels (file:function -> generated definitions), all read per element (one record / one byte / one CIGAR word):
  io/bam.py  BamBufferExtractor._read_name_start/_cigar_start/_sequence_start/_quality_start   offset chain
             ._get_cigar_bytes  (n_cigar_op * 4, with the dtype of the multiplication)            gen_cigar_bytes
             ._get_chromosome/_get_position/_get_cigar_bytes/_get_flag/_get_sequence_length       field descriptors
             ._get_read_name_length/_get_mapq (single byte reads), ._get_ints (byte index)        gen_*_index
             ._get_read_name / ._get_quality / ._get_cigar / ._get_sequences slice bounds         gen_*_lo / gen_*_hi
             ._get_sequences nibble arithmetic, row length, trim                                   gen_nibble ...
             BamBuffer._find_starts (step, block_size slice, takewhile comparison)                 gen_find_next ...
             BamIntervalBuffer.get_field_by_number (stop, strand)                                  gen_bib_*
  alignments/cigar.py  split_cigar (& 15, >> 4), count_reference_length ("MDN=X", mask*lengths)   gen_cigar_op ...
  alignments/__init__.py  alignment_to_interval (flag & 16, where(.., '-', '+'), position+length) gen_a2i_*
  io/parser.py  NumpyFileReader._get_buffer (bytes_read < min_chunk_size)                          gen_is_finished
Fail closed: any construct outside the subset raises Unsupported and the definition becomes `unit`.
"""
import ast
import os

from translate.py2coq import Kernel, Unsupported, find_function, src_of

REPO = os.environ.get('VERIF_REPO', '/repo')
DTYPES = {'np.uint8': (1, False), 'np.uint16': (2, False), 'np.uint32': (4, False),
          'np.int8': (1, True), 'np.int16': (2, True), 'np.int32': (4, True)}
CMP = {ast.Lt: '<?', ast.LtE: '<=?', ast.Gt: '>?', ast.GtE: '>=?', ast.Eq: '=?'}


def parse(rel):
    return ast.parse(open(os.path.join(REPO, rel)).read())


def const_eval(node):
    """value of an integer constant expression built from literals with + - * ** ; None otherwise"""
    if isinstance(node, ast.Constant) and isinstance(node.value, int) and not isinstance(node.value, bool):
        return node.value
    if isinstance(node, ast.BinOp) and isinstance(node.op, (ast.Add, ast.Sub, ast.Mult, ast.Pow)):
        a, b = const_eval(node.left), const_eval(node.right)
        if a is None or b is None:
            return None
        if isinstance(node.op, ast.Add):
            return a + b
        if isinstance(node.op, ast.Sub):
            return a - b
        if isinstance(node.op, ast.Mult):
            return a * b
        if 0 <= b <= 64:
            return a ** b
    return None


def lit(v):
    return str(v) if v >= 0 else '(%d)' % v


class BamKernel(Kernel):
    """Kernel + shifts, masks, NumPy scalar constructors, ord(), constant folding, .astype(int), and a small dtype
    rule: a product/sum/difference with a *bare* operand that was read as an unsigned fixed-width integer
    (`x = self._get_ints(off, n, np.uint16)`) is reduced modulo 2^bits, as NumPy evaluates it."""

    def __init__(self, func, renames, call_renames=None):
        super().__init__(func, renames)
        self.call_renames = call_renames or {}
        self.narrow = {}
        for name, vals in self.assigns.items():
            if len(vals) == 1 and isinstance(vals[0], ast.Call) and src_of(vals[0].func) == 'self._get_ints' \
                    and len(vals[0].args) == 3 and src_of(vals[0].args[2]) in DTYPES:
                nb, signed = DTYPES[src_of(vals[0].args[2])]
                if not signed:
                    self.narrow[name] = 8 * nb

    def _narrow_bits(self, node):
        return self.narrow.get(node.id) if isinstance(node, ast.Name) else None

    def expr(self, node, params, deps):
        s = src_of(node)
        if s in self.renames:
            return self.renames[s]
        c = const_eval(node)
        if c is not None:
            return lit(c)
        if isinstance(node, ast.BinOp):
            if isinstance(node.op, ast.RShift):
                return '(Z.shiftr %s %s)' % (self.expr(node.left, params, deps), self.expr(node.right, params, deps))
            if isinstance(node.op, ast.BitAnd):
                return '(Z.land %s %s)' % (self.expr(node.left, params, deps), self.expr(node.right, params, deps))
            if isinstance(node.op, (ast.Mult, ast.Add, ast.Sub)):
                bits = [b for b in (self._narrow_bits(node.left), self._narrow_bits(node.right)) if b]
                if bits:
                    # the other operand must be a Python int literal (it does not widen the array dtype)
                    other = node.right if self._narrow_bits(node.left) else node.left
                    if const_eval(other) is None and not self._narrow_bits(other):
                        raise Unsupported('mixed-dtype arithmetic outside the subset: %s' % s)
                    inner = super().expr(node, params, deps)
                    return '(%s mod %d)' % (inner, 2 ** max(bits))
        if isinstance(node, ast.Call):
            f = src_of(node.func)
            if f in self.call_renames:
                return self.call_renames[f]
            if f in DTYPES and len(node.args) == 1 and not node.keywords:
                v = const_eval(node.args[0])
                nb, signed = DTYPES[f]
                if v is not None and ((-(2 ** (8 * nb - 1)) <= v < 2 ** (8 * nb - 1)) if signed else (0 <= v < 2 ** (8 * nb))):
                    return lit(v)
                raise Unsupported('scalar constructor with a non-constant or out-of-range argument: %s' % s)
            if f == 'ord' and len(node.args) == 1 and isinstance(node.args[0], ast.Constant) \
                    and isinstance(node.args[0].value, str) and len(node.args[0].value) == 1:
                return lit(ord(node.args[0].value))
            if isinstance(node.func, ast.Attribute) and node.func.attr == 'astype' and len(node.args) == 1 \
                    and src_of(node.args[0]) in ('int', 'np.int64') and not node.keywords:
                inner = node.func.value          # widening to int64: the value itself
                if isinstance(inner, ast.Name) and inner.id not in params:
                    deps.append(inner.id)
                return self.expr_plain_name(inner, params, deps)
            if f == 'np.where' and len(node.args) == 3 and not isinstance(node.args[0], ast.Compare):
                # truthiness of an integer array
                return '(if (%s =? 0) then %s else %s)' % (self.expr(node.args[0], params, deps),
                                                           self.expr(node.args[2], params, deps),
                                                           self.expr(node.args[1], params, deps))
        return super().expr(node, params, deps)

    def expr_plain_name(self, node, params, deps):
        if isinstance(node, ast.Name):
            return node.id
        return self.expr(node, params, deps)

    def define(self, coq_name, params, out, local_overrides=None):
        # a narrow local that is listed as a parameter stays narrow (its value is the raw field)
        return super().define(coq_name, params, out, local_overrides)

    def define_bool(self, coq_name, params, cmp_node):
        if not (isinstance(cmp_node, ast.Compare) and len(cmp_node.ops) == 1 and type(cmp_node.ops[0]) in CMP):
            raise Unsupported('%s: not a single comparison: %s' % (coq_name, src_of(cmp_node)))
        deps = []
        a = self.expr(cmp_node.left, params, deps)
        b = self.expr(cmp_node.comparators[0], params, deps)
        if deps:
            raise Unsupported('%s: comparison reads locals %s' % (coq_name, deps))
        return 'Definition %s %s : bool :=\n  (%s %s %s).\n' % (coq_name, ' '.join('(%s : Z)' % p for p in params), a,
                                                              CMP[type(cmp_node.ops[0])], b)


def ret(func):
    """the value of the function's only return statement"""
    rs = [n for n in ast.walk(func) if isinstance(n, ast.Return) and n.value is not None]
    if len(rs) != 1:
        raise Unsupported('%s has %d return statements' % (func.name, len(rs)))
    return rs[0].value


def the_call(func, callee_src):
    cs = [n for n in ast.walk(func) if isinstance(n, ast.Call) and src_of(n.func) == callee_src]
    if len(cs) != 1:
        raise Unsupported('%d calls to %s in %s' % (len(cs), callee_src, getattr(func, 'name', '?')))
    return cs[0]


def emit(defs, name, fn):
    try:
        defs.append(fn())
    except Unsupported as e:
        defs.append('(* NOT TRANSLATED: %s *)\nDefinition %s : unit := tt.\n' % (str(e).replace('*)', '* )'), name))
    except Exception as e:
        defs.append('(* NOT TRANSLATED: %s: %s *)\nDefinition %s : unit := tt.\n' % (type(e).__name__, str(e).replace('*)', '* )'), name))


def gen():
    rel = 'bionumpy/io/bam.py (+ alignments/cigar.py, alignments/__init__.py, io/parser.py)'
    defs = []
    bam = parse('bionumpy/io/bam.py')
    X = 'BamBufferExtractor.'

    def fn(q):
        return find_function(bam, q)

    # ---- fixed-offset fields: (offset, number of bytes, signed) of every _get_ints read
    def field(coq, q):
        def go():
            c = the_call(fn(X + q), 'self._get_ints')
            if len(c.args) != 3 or c.keywords:
                raise Unsupported('_get_ints call shape')
            off, n = const_eval(c.args[0]), const_eval(c.args[1])
            dt = src_of(c.args[2])
            if off is None or n is None or dt not in DTYPES or DTYPES[dt][0] != n:
                raise Unsupported('field read %s' % src_of(c))
            return 'Definition %s : Z * Z * bool := (%d, %d, %s).\n' % (coq, off, n, 'true' if DTYPES[dt][1] else 'false')
        emit(defs, coq, go)
    field('gen_fld_refid', '_get_chromosome')
    field('gen_fld_pos', '_get_position')
    field('gen_fld_n_cigar', '_get_cigar_bytes')
    field('gen_fld_flag', '_get_flag')
    field('gen_fld_l_seq', '_get_sequence_length')

    # the returned value of the typed reads must be the field itself (no extra arithmetic)
    def plain_field(coq, q, var=None):
        def go():
            f = fn(X + q)
            r = ret(f)
            if var is None:
                ok = isinstance(r, ast.Call) and src_of(r.func) == 'self._get_ints'
            else:
                k = Kernel(f, {})
                ok = isinstance(r, ast.Name) and r.id == var and len(k.assigns.get(var, [])) == 1 \
                    and isinstance(k.assigns[var][0], ast.Call) and src_of(k.assigns[var][0].func) == 'self._get_ints'
            if not ok:
                raise Unsupported('%s does not return the raw field: %s' % (q, src_of(r)))
            return 'Definition %s : bool := true.\n' % coq
        emit(defs, coq, go)
    plain_field('gen_pos_is_raw', '_get_position')
    plain_field('gen_flag_is_raw', '_get_flag')
    plain_field('gen_l_seq_is_raw', '_get_sequence_length')

    # byte index of _get_ints: data[(starts + offsets)[:, None] + arange(n_bytes)]
    def get_ints_index():
        f = fn(X + '_get_ints')
        k = BamKernel(f, {'self._new_lines': 'start'})
        tmp = k.assigns.get('tmp')
        if not tmp or len(tmp) != 1:
            raise Unsupported('_get_ints: tmp')
        node = tmp[0]
        # self._data[IDX].ravel()
        if not (isinstance(node, ast.Call) and isinstance(node.func, ast.Attribute) and node.func.attr == 'ravel'
                and isinstance(node.func.value, ast.Subscript) and src_of(node.func.value.value) == 'self._data'):
            raise Unsupported('_get_ints: %s' % src_of(node))
        idx = node.func.value.slice
        if not (isinstance(idx, ast.BinOp) and isinstance(idx.op, ast.Add) and isinstance(idx.left, ast.Subscript)
                and src_of(idx.left.slice).replace(' ', '').strip('()') == ':,None'):
            raise Unsupported('_get_ints index: %s' % src_of(idx))
        if src_of(idx.right) != 'np.arange(n_bytes)':
            raise Unsupported('_get_ints index: %s' % src_of(idx))
        base = k.expr(idx.left.value, ['start', 'offsets'], [])
        return 'Definition gen_get_ints_index (start : Z) (offsets : Z) (j : Z) : Z :=\n  (%s + j).\n' % base
    emit(defs, 'gen_get_ints_index', get_ints_index)

    # single-byte reads: data[starts + c]
    def byte_index(coq, q):
        def go():
            r = ret(fn(X + q))
            if not (isinstance(r, ast.Subscript) and src_of(r.value) == 'self._data'):
                raise Unsupported('%s: %s' % (q, src_of(r)))
            return BamKernel(fn(X + q), {'self._new_lines': 'start'}).define(coq, ['start'], r.slice)
        emit(defs, coq, go)
    byte_index('gen_l_read_name_index', '_get_read_name_length')
    byte_index('gen_mapq_index', '_get_mapq')

    # ---- derived offsets
    emit(defs, 'gen_read_name_start', lambda: BamKernel(fn(X + '_read_name_start'), {'self._new_lines': 'start'})
         .define('gen_read_name_start', ['start'], ret(fn(X + '_read_name_start'))))
    emit(defs, 'gen_cigar_start', lambda: BamKernel(fn(X + '_cigar_start'), {'self._read_name_start': 'read_name_start'},
                                                    {'self._get_read_name_length': 'l_read_name'})
         .define('gen_cigar_start', ['read_name_start', 'l_read_name'], ret(fn(X + '_cigar_start'))))
    emit(defs, 'gen_cigar_bytes', lambda: BamKernel(fn(X + '_get_cigar_bytes'), {})
         .define('gen_cigar_bytes', ['n_cigar_op'], ret(fn(X + '_get_cigar_bytes'))))
    emit(defs, 'gen_sequence_start', lambda: BamKernel(fn(X + '_sequence_start'), {'self._cigar_start': 'cigar_start'},
                                                       {'self._get_cigar_bytes': 'n_cigar_bytes'})
         .define('gen_sequence_start', ['cigar_start', 'n_cigar_bytes'], ret(fn(X + '_sequence_start'))))
    emit(defs, 'gen_quality_start', lambda: BamKernel(fn(X + '_quality_start'), {'self._sequence_start': 'sequence_start'},
                                                      {'self._get_sequence_length': 'l_seq'})
         .define('gen_quality_start', ['sequence_start', 'l_seq'], ret(fn(X + '_quality_start'))))

    # ---- slice bounds of the variable-length fields: ragged_slice(self._data, lo, hi)
    OFFS = {'self._read_name_start': 'read_name_start', 'self._cigar_start': 'cigar_start',
            'self._sequence_start': 'sequence_start', 'self._quality_start': 'quality_start'}
    P4 = ['read_name_start', 'cigar_start', 'sequence_start', 'quality_start', 'l_seq']

    def bounds(lo_name, hi_name, q):
        def go():
            f = fn(X + q)
            c = the_call(f, 'ragged_slice')
            if len(c.args) != 3 or src_of(c.args[0]) != 'self._data':
                raise Unsupported('ragged_slice call in %s' % q)
            k = BamKernel(f, OFFS, {'self._get_sequence_length': 'l_seq'})
            return k.define(lo_name, P4, c.args[1]) + k.define(hi_name, P4, c.args[2])
        emit(defs, lo_name, go)
    bounds('gen_name_lo', 'gen_name_hi', '_get_read_name')
    bounds('gen_cigar_lo', 'gen_cigar_hi', '_get_cigar')
    bounds('gen_seq_lo', 'gen_seq_hi', '_get_sequences')
    bounds('gen_qual_lo', 'gen_qual_hi', '_get_quality')

    # cigar bytes viewed as uint32: cigars.ravel().view(np.uint32), lengths // 4
    def cigar_word():
        f = fn(X + '_get_cigar')
        found = [n for n in ast.walk(f) if isinstance(n, ast.Call) and src_of(n.func) == 'RaggedArray' and len(n.args) == 2]
        if len(found) != 1:
            raise Unsupported('_get_cigar: RaggedArray call')
        a, b = found[0].args
        if src_of(a) != 'cigars.ravel().view(np.uint32)':
            raise Unsupported('_get_cigar view: %s' % src_of(a))
        k = BamKernel(f, {'cigars.lengths': 'n_bytes'})
        return ('Definition gen_cigar_word_bytes : Z := 4.\n'
                + k.define('gen_cigar_n_words', ['n_bytes'], b))
    emit(defs, 'gen_cigar_word_bytes', cigar_word)

    # ---- nibble arithmetic of _get_sequences
    def nibble():
        f = fn(X + '_get_sequences')
        k = BamKernel(f, {})
        vals = k.assigns.get('sequences', [])
        enc = [v for v in vals if isinstance(v, ast.Call) and src_of(v.func) == 'EncodedArray']
        if len(vals) != 2 or len(enc) != 1 or len(enc[0].args) != 2 or src_of(enc[0].args[1]) != 'BamEncoding':
            raise Unsupported('_get_sequences: sequences assignments')
        e = enc[0].args[0]
        # (X[:, None] >> (C * np.arange(N, dtype=np.uint8)[::-1])).ravel() & np.uint8(M)
        if not (isinstance(e, ast.BinOp) and isinstance(e.op, ast.BitAnd)):
            raise Unsupported('nibble expression: %s' % src_of(e))
        mask = k.expr(e.right, [], [])
        sh = e.left
        if not (isinstance(sh, ast.Call) and isinstance(sh.func, ast.Attribute) and sh.func.attr == 'ravel' and not sh.args):
            raise Unsupported('nibble expression: %s' % src_of(e))
        sh = sh.func.value
        if not (isinstance(sh, ast.BinOp) and isinstance(sh.op, ast.RShift)):
            raise Unsupported('nibble expression: %s' % src_of(e))
        if src_of(sh.left).replace(' ', '') not in ('sequences.ravel()[:,None]', '(sequences.ravel())[:,None]'):
            raise Unsupported('nibble operand: %s' % src_of(sh.left))
        amt = sh.right
        if not (isinstance(amt, ast.BinOp) and isinstance(amt.op, ast.Mult)):
            raise Unsupported('shift amounts: %s' % src_of(amt))
        cst, ar = (amt.left, amt.right) if const_eval(amt.left) is not None else (amt.right, amt.left)
        c = const_eval(cst)
        rev = False
        if isinstance(ar, ast.Subscript) and src_of(ar.slice).replace(' ', '') == '::-1':
            rev, ar = True, ar.value
        if not (isinstance(ar, ast.Call) and src_of(ar.func) == 'np.arange' and len(ar.args) == 1 and const_eval(ar.args[0]) is not None
                and all(kw.arg == 'dtype' for kw in ar.keywords)) or c is None:
            raise Unsupported('shift amounts: %s' % src_of(amt))
        n = const_eval(ar.args[0])
        pos = '((%d - 1) - i)' % n if rev else 'i'
        return ('Definition gen_nibbles_per_byte : Z := %d.\n' % n
                + 'Definition gen_nibble (b : Z) (i : Z) : Z :=\n  (Z.land (Z.shiftr b (%d * %s)) %s).\n' % (c, pos, mask))
    emit(defs, 'gen_nibbles_per_byte', nibble)

    def seq_rows():
        f = fn(X + '_get_sequences')
        k = BamKernel(f, {}, {'self._get_sequence_length': 'l_seq'})
        era = [n for n in ast.walk(f) if isinstance(n, ast.Call) and src_of(n.func) == 'EncodedRaggedArray' and len(n.args) == 2]
        rv = [n for n in ast.walk(f) if isinstance(n, ast.Call) and src_of(n.func) == 'RaggedView' and len(n.args) == 2]
        if len(era) != 1 or len(rv) != 1 or src_of(rv[0].args[0]) != 'new_sequences._shape.starts':
            raise Unsupported('_get_sequences: row construction')
        return (k.define('gen_seq_row_len', ['l_seq'], era[0].args[1])
                + k.define('gen_seq_keep', ['l_seq'], rv[0].args[1]))
    emit(defs, 'gen_seq_row_len', seq_rows)

    # ---- record boundaries: BamBuffer._find_starts
    def find_starts():
        f = fn('BamBuffer._find_starts')
        lam = {}
        for n in ast.walk(f):
            if isinstance(n, ast.Assign) and len(n.targets) == 1 and isinstance(n.targets[0], ast.Name) and isinstance(n.value, ast.Lambda):
                lam[n.targets[0].id] = n.value
        step = lam.get('new_start')
        if step is None or [a.arg for a in step.args.args][0] != 'start':
            raise Unsupported('_find_starts: new_start lambda')
        fb = [n for n in ast.walk(step.body) if isinstance(n, ast.Call) and src_of(n.func) == 'int.from_bytes']
        if len(fb) != 1 or len(fb[0].args) != 1 or [(kw.arg, src_of(kw.value)) for kw in fb[0].keywords] != [('byteorder', "'little'")]:
            raise Unsupported('_find_starts: from_bytes call')
        sl = fb[0].args[0]
        if not (isinstance(sl, ast.Subscript) and src_of(sl.value) == 'chunk' and isinstance(sl.slice, ast.Slice)
                and sl.slice.step is None and sl.slice.lower is not None and sl.slice.upper is not None):
            raise Unsupported('_find_starts: block_size slice %s' % src_of(sl))
        k = BamKernel(f, {src_of(fb[0]): 'block_size', 'len(chunk)': 'chunk_len'})
        out = k.define('gen_find_next', ['start', 'block_size'], step.body)
        out += k.define('gen_block_size_lo', ['start'], sl.slice.lower) + k.define('gen_block_size_hi', ['start'], sl.slice.upper)
        # accumulate(repeat(0), new_start): first start 0; takewhile(lambda start: start <= len(chunk), ...)
        acc = the_call(f, 'accumulate')
        if src_of(acc.args[0]) != 'repeat(0)' or src_of(acc.args[1]) != 'new_start':
            raise Unsupported('_find_starts: accumulate(%s)' % ', '.join(src_of(a) for a in acc.args))
        tw = the_call(f, 'takewhile')
        if not (isinstance(tw.args[0], ast.Lambda) and [a.arg for a in tw.args[0].args.args] == ['start'] and src_of(tw.args[1]) == '_starts'):
            raise Unsupported('_find_starts: takewhile')
        out += 'Definition gen_first_start : Z := 0.\n'
        out += k.define_bool('gen_in_chunk', ['start', 'chunk_len'], tw.args[0].body)
        return out
    emit(defs, 'gen_find_next', find_starts)

    # from_raw_buffer: chunk[:starts[-1]], starts[:-1], starts[1:]
    def raw_buffer():
        f = fn('BamBuffer.from_raw_buffer')
        c = the_call(f, 'BamBufferExtractor')
        got = [src_of(a).replace(' ', '') for a in c.args[:3]]
        if got != ['chunk[:starts[-1]]', 'starts[:-1]', 'starts[1:]']:
            raise Unsupported('from_raw_buffer builds %s' % got)
        return 'Definition gen_raw_buffer_shape : bool := true.\n'
    emit(defs, 'gen_raw_buffer_shape', raw_buffer)

    # ---- BamIntervalBuffer: stop and strand
    def bib():
        f = fn('BamIntervalBuffer.get_field_by_number')
        lams = [n for n in ast.walk(f) if isinstance(n, ast.Lambda)]
        stop = [l for l in lams if 'count_reference_length' in src_of(l)]
        strand = [l for l in lams if 'np.where' in src_of(l)]
        if len(stop) != 1 or len(strand) != 1:
            raise Unsupported('BamIntervalBuffer lambdas')
        k = BamKernel(f, {'self._buffer_extractor.get_field_by_number(3)': 'position',
                          'self._buffer_extractor.get_field_by_number(2)': 'flag'}, {'count_reference_length': 'ref_length'})
        w = [n for n in ast.walk(strand[0].body) if isinstance(n, ast.Call) and src_of(n.func) == 'np.where']
        if len(w) != 1:
            raise Unsupported('BamIntervalBuffer strand')
        return k.define('gen_bib_stop', ['position', 'ref_length'], stop[0].body) + k.define('gen_bib_strand', ['flag'], w[0])
    emit(defs, 'gen_bib_stop', bib)

    # ---- alignments/cigar.py
    cig = parse('bionumpy/alignments/cigar.py')

    def split():
        f = find_function(cig, 'split_cigar')
        k = BamKernel(f, {'cigars': 'w'})
        sym = k.assigns.get('symbol', [])
        sym = [v for v in sym if isinstance(v, ast.Call) and src_of(v.func) == 'EncodedArray']
        if len(sym) != 1 or len(sym[0].args) != 2 or src_of(sym[0].args[1]) != 'CigarOpEncoding':
            raise Unsupported('split_cigar: symbol')
        ln = [v for v in k.assigns.get('lengths', []) if not isinstance(v, ast.Tuple)]
        ln = [v for v in ln if 'split_cigar' not in src_of(v)]
        if len(ln) != 1:
            raise Unsupported('split_cigar: lengths')
        return k.define('gen_cigar_op', ['w'], sym[0].args[0]) + k.define('gen_cigar_len', ['w'], ln[0])
    emit(defs, 'gen_cigar_op', split)

    def reflen():
        f = find_function(cig, 'count_reference_length')
        k = BamKernel(f, {})
        cons = k.assigns.get('consuming', [])
        if len(cons) != 1 or not (isinstance(cons[0], ast.Call) and src_of(cons[0].func) == 'as_encoded_array' and len(cons[0].args) == 2
                                  and isinstance(cons[0].args[0], ast.Constant) and isinstance(cons[0].args[0].value, str)
                                  and src_of(cons[0].args[1]) == 'CigarOpEncoding'):
            raise Unsupported('count_reference_length: consuming')
        letters = cons[0].args[0].value
        if not letters.isascii() or '"' in letters:
            raise Unsupported('consuming letters')
        # mask = (symbol == consuming[0]); for s in consuming[1:]: mask = mask | (symbol == s)   -> membership
        loops = [n for n in ast.walk(f) if isinstance(n, ast.For)]
        if len(loops) != 1 or src_of(loops[0].iter) != 'consuming[1:]' or len(loops[0].body) != 1 \
                or src_of(loops[0].body[0]) != 'mask = mask | (symbol == %s)' % src_of(loops[0].target):
            raise Unsupported('count_reference_length: mask loop')
        first = [v for v in k.assigns.get('mask', []) if src_of(v) == 'symbol == consuming[0]']
        if len(first) != 1:
            raise Unsupported('count_reference_length: first mask')
        s = the_call(f, 'np.sum')
        if [(kw.arg, src_of(kw.value)) for kw in s.keywords] != [('axis', '-1')] or len(s.args) != 1:
            raise Unsupported('count_reference_length: np.sum')
        k2 = BamKernel(f, {'mask': 'mask', 'lengths': 'oplen'})
        return ('Definition gen_consuming : string := "%s"%%string.\n' % letters
                + k2.define('gen_ref_term', ['mask', 'oplen'], s.args[0]))
    emit(defs, 'gen_consuming', reflen)

    # ---- alignments/__init__.py : alignment_to_interval
    ali = parse('bionumpy/alignments/__init__.py')

    def a2i():
        f = find_function(ali, 'alignment_to_interval')
        k = BamKernel(f, {'alignment.flag': 'flag', 'alignment.position': 'position'})
        st = k.assigns.get('strand', [])
        if len(st) != 2:
            raise Unsupported('alignment_to_interval: strand')
        w = [n for n in ast.walk(st[1]) if isinstance(n, ast.Call) and src_of(n.func) == 'np.where']
        if len(w) != 1 or src_of(w[0].args[0]) != 'strand':
            raise Unsupported('alignment_to_interval: where')
        out = k.define('gen_a2i_strand_bits', ['flag'], st[0])
        k3 = BamKernel(f, {'strand': 'bits'})
        out += k3.define('gen_a2i_strand', ['bits'], w[0])
        c = the_call(f, 'Bed6')
        if len(c.args) != 6 or src_of(c.args[1]) != 'alignment.position':
            raise Unsupported('alignment_to_interval: Bed6 call')
        ln = k.assigns.get('length', [])
        if len(ln) != 1 or src_of(ln[0]) != 'count_reference_length(alignment.cigar_op, alignment.cigar_length)':
            raise Unsupported('alignment_to_interval: length')
        k4 = BamKernel(f, {'alignment.position': 'position', 'length': 'ref_length'})
        out += k4.define('gen_a2i_stop', ['position', 'ref_length'], c.args[2])
        return out
    emit(defs, 'gen_a2i_strand_bits', a2i)

    # ---- io/parser.py : end-of-stream test of the chunk reader
    par = parse('bionumpy/io/parser.py')

    def finished():
        f = find_function(par, 'NumpyFileReader._get_buffer')
        vals = [n.value for n in ast.walk(f) if isinstance(n, ast.Assign) and len(n.targets) == 1
                and src_of(n.targets[0]) == 'self._is_finished']
        if len(vals) != 1:
            raise Unsupported('_get_buffer: _is_finished assignments')
        return BamKernel(f, {}).define_bool('gen_is_finished', ['bytes_read', 'min_chunk_size'], vals[0])
    emit(defs, 'gen_is_finished', finished)
    return rel, defs

"""py2coq — a deliberately small, fail-closed translator from Python/NumPy *integer arithmetic* to Gallina.

Scope: straight-line assignments `name = expr` found anywhere in a function body (loop bodies included),
where expr is built from names, integer constants, + - * // %, unary minus, parentheses, attribute reads and
string-keyed subscripts that the kernel description maps to parameter names, tuple assignments, np.minimum /
np.maximum / min / max of two arguments, and comparisons inside np.where(c, a, b).  Element-wise NumPy
expressions over equally shaped arrays are translated as the per-element scalar function (the kernel
description says which names are per-element).  Anything else raises Unsupported: the kernel is then NOT
bridged, Gen/<ID>.v records the failure, and the bridge lemma for it fails to compile — never a guess.
"""
import ast


class Unsupported(Exception):
    pass


BINOPS = {ast.Add: '+', ast.Sub: '-', ast.Mult: '*', ast.FloorDiv: '/', ast.Mod: 'mod'}
CMPOPS = {ast.Lt: '<?', ast.LtE: '<=?', ast.Gt: '>?', ast.GtE: '>=?', ast.Eq: '=?'}


def find_function(tree, qualname):
    parts = qualname.split('.')
    node = tree
    for p in parts:
        found = None
        for child in ast.iter_child_nodes(node):
            if isinstance(child, (ast.FunctionDef, ast.ClassDef)) and child.name == p:
                found = child
                break
        if found is None:
            raise Unsupported('no %s in %s' % (p, qualname))
        node = found
    return node


def src_of(node):
    try:
        return ast.unparse(node)
    except Exception:
        return '<node>'


class Kernel:
    def __init__(self, func, renames):
        """renames: dict from python source text of a leaf expression (e.g. 'idx["lenb"]', 'interval.start',
        'indices.line_length') to a Coq variable name."""
        self.func = func
        self.renames = renames
        self.assigns = {}      # name -> list of value nodes (in order)
        self._collect(func)

    def _collect(self, node):
        for n in ast.walk(node):
            if isinstance(n, ast.Assign) and len(n.targets) == 1:
                t = n.targets[0]
                if isinstance(t, ast.Name):
                    self.assigns.setdefault(t.id, []).append(n.value)
                elif isinstance(t, ast.Tuple) and isinstance(n.value, ast.Tuple) and len(t.elts) == len(n.value.elts):
                    for a, b in zip(t.elts, n.value.elts):
                        if isinstance(a, ast.Name):
                            self.assigns.setdefault(a.id, []).append(b)
            elif isinstance(n, ast.AugAssign) and isinstance(n.target, ast.Name):
                self.assigns.setdefault(n.target.id, []).append(None)   # poison: not single-assignment

    def expr(self, node, params, deps):
        """Gallina text of an integer expression; deps collects local names it reads."""
        s = src_of(node)
        if s in self.renames:
            return self.renames[s]
        if isinstance(node, ast.Constant) and isinstance(node.value, int) and not isinstance(node.value, bool):
            return str(node.value) if node.value >= 0 else '(%d)' % node.value
        if isinstance(node, ast.Name):
            if node.id in params:
                return node.id
            deps.append(node.id)
            return node.id
        if isinstance(node, ast.BinOp) and type(node.op) in BINOPS:
            return '(%s %s %s)' % (self.expr(node.left, params, deps), BINOPS[type(node.op)], self.expr(node.right, params, deps))
        if isinstance(node, ast.UnaryOp) and isinstance(node.op, ast.USub):
            return '(- %s)' % self.expr(node.operand, params, deps)
        if isinstance(node, ast.Call):
            f = src_of(node.func)
            if f in ('np.minimum', 'min') and len(node.args) == 2 and not node.keywords:
                return '(Z.min %s %s)' % tuple(self.expr(a, params, deps) for a in node.args)
            if f in ('np.maximum', 'max') and len(node.args) == 2 and not node.keywords:
                return '(Z.max %s %s)' % tuple(self.expr(a, params, deps) for a in node.args)
            if f == 'np.where' and len(node.args) == 3:
                c = node.args[0]
                if isinstance(c, ast.Compare) and len(c.ops) == 1 and type(c.ops[0]) in CMPOPS:
                    return '(if (%s %s %s) then %s else %s)' % (
                        self.expr(c.left, params, deps), CMPOPS[type(c.ops[0])], self.expr(c.comparators[0], params, deps),
                        self.expr(node.args[1], params, deps), self.expr(node.args[2], params, deps))
        raise Unsupported('expression outside the subset: %s' % s)

    def define(self, coq_name, params, out, local_overrides=None):
        """Definition coq_name (params : Z) : Z := let ... in out, slicing backwards from `out`."""
        lets, done = [], set()

        def need(name):
            if name in done or name in params:
                return
            vals = self.assigns.get(name)
            if not vals or len(vals) != 1 or vals[0] is None:
                raise Unsupported('%s: local %r is not assigned exactly once by a plain assignment' % (coq_name, name))
            deps = []
            text = self.expr(vals[0], params, deps)
            if text == name:          # `lenb = idx["lenb"]` renamed to itself: a parameter
                done.add(name)
                return
            for d in deps:
                need(d)
            done.add(name)
            lets.append((name, text))
        if isinstance(out, str):
            need(out)
            body = out
        else:                          # an ast node (e.g. the element of a comprehension)
            deps = []
            body = self.expr(out, params, deps)
            for d in deps:
                need(d)
        # parameters that are never read are still listed: the bridge states equality for all arguments
        txt = 'Definition %s %s : Z :=\n' % (coq_name, ' '.join('(%s : Z)' % p for p in params))
        for n, t in lets:
            txt += '  let %s := %s in\n' % (n, t)
        txt += '  %s.\n' % body
        return txt

    def comprehension(self, target_name=None, predicate=None):
        """first ListComp / DictComp (optionally the one assigned to / satisfying predicate)."""
        for n in ast.walk(self.func):
            if isinstance(n, (ast.ListComp, ast.DictComp)) and (predicate is None or predicate(n)):
                return n
        raise Unsupported('no comprehension found')

"""gen_c14 — regenerates coq/theories/Gen/C14.v from the tables and small rules of /repo that carry property C14.

Kernels (source function -> generated definition):
  sequence/dna.py  _complements (module dict literal)                 gen_complements          (code-point pairs, dict order)
  sequence/dna.py  _get_ascii_complement_lookup                       gen_ascii_size, gen_ascii_fill, gen_ascii_assign
                                                                      (the assignments `values[ord(K)] = ord(V)` of the loop body)
  sequence/dna.py  _get_alphabet_encoding_complement_lookup           gen_new_alphabet, gen_alpha_lookup_same_encoding
  sequence/dna.py  complement                                         gen_complement_rewraps_current_shape
  sequence/dna.py  get_reverse_complement                             gen_revcomp_reverses_rows
  sequence/dna.py  broadcast_row_mask                                 gen_row_mask_flat, gen_row_mask_shape_is_lengths
  sequence/dna.py  get_strand_specific_sequences                      gen_dna_slice_start, gen_dna_slice_stop, gen_dna_where, gen_dna_mask
  genomic_data/genomic_sequence.py  GenomicSequence.extract_intervals gen_genomic_where, gen_genomic_mask
  sequence/genes.py  get_transcript_sequences                         gen_genes_where, gen_genes_mask
  sequence/translate.py  DNAToProtein                                 gen_amino_acids, gen_codon_alphabet, gen_table_is_code_points
  sequence/translate.py  Translate.window_size / __call__             gen_window_size, gen_window_reversed
  sequence/translate.py  WindowFunction.windowed                      gen_length_check, gen_out_length, gen_reshape_is_window_rows
  sequence/kmers.py  KmerEncoder.__init__ / __call__                  gen_kmer_weight, gen_hash_is_dot

Reading conventions (trusted, stated in notes/C14.md): a one-character str is its code point (`ord(c)` is c, `c.lower()` /
`c.upper()` are Base.Prims.lower / upper); `for key, value in d.items()` visits the pairs of the dict literal in order and
the statements of the body in order; `np.where(mask, x, y)` takes x where the mask holds (how a column mask `m[:, np.newaxis]` / an explicit
ragged row mask reaches the rows is npstructures' business: Model.C14.where_pinned / where_flat); `np.repeat(m, lengths)` is
Base.Prims.repeat_each; an
element-wise expression over arrays is read per element (`size ** np.arange(k)` is j |-> size ^ j for j < k;
`lengths // w`, `lengths % w == 0` per row); `a.dot(b)` is the sum of products.  A *where site* is emitted as
(code point the strand is compared with, is the operand taken when the test holds the reverse complement) plus
gen_*_mask = (the mask is broadcast_row_mask(.., S), S is the first np.where operand).
Everything is pattern-matched exactly; any other shape raises Unsupported and the definition is emitted as `unit`
(the bridge lemma then no longer type-checks).
"""
import ast
import os

from translate.py2coq import Kernel, Unsupported, find_function, src_of

REPO = os.environ.get('VERIF_REPO', '/repo')

PRELUDE = '''From Coq Require Import List Bool.
From BNP Require Import Base.Prims.
Import ListNotations.
Open Scope Z_scope.
'''


def parse(rel):
    return ast.parse(open(os.path.join(REPO, rel)).read())


def emit(defs, name, fn):
    try:
        defs.append(fn())
    except Unsupported as e:
        defs.append('(* NOT TRANSLATED: %s *)\nDefinition %s : unit := tt.\n' % (str(e).replace('*)', '* )'), name))
    except Exception as e:
        defs.append('(* NOT TRANSLATED: %s: %s *)\nDefinition %s : unit := tt.\n' % (type(e).__name__, str(e).replace('*)', '* )'), name))


def char_const(node):
    if isinstance(node, ast.Constant) and isinstance(node.value, str) and len(node.value) == 1 and ord(node.value) < 128:
        return ord(node.value)
    raise Unsupported('not a one-character ASCII literal: %s' % src_of(node))


def str_const(node):
    if isinstance(node, ast.Constant) and isinstance(node.value, str) and all(32 <= ord(c) < 127 and c != '"' for c in node.value):
        return node.value
    raise Unsupported('not a plain ASCII string literal: %s' % src_of(node))


def body_statements(func):
    """statements of a function body without the docstring"""
    body = list(func.body)
    if body and isinstance(body[0], ast.Expr) and isinstance(body[0].value, ast.Constant) and isinstance(body[0].value.value, str):
        body = body[1:]
    return body


def single_assign(func, name):
    vals = [n.value for n in ast.walk(func) if isinstance(n, ast.Assign) and len(n.targets) == 1
            and src_of(n.targets[0]) == name]
    aug = [n for n in ast.walk(func) if isinstance(n, ast.AugAssign) and src_of(n.target) == name]
    if len(vals) != 1 or aug:
        raise Unsupported('%s is not assigned exactly once' % name)
    return vals[0]


# ----------------------------------------------------------------------------- sequence/dna.py
def gen_complements(tree):
    vals = [n.value for n in tree.body if isinstance(n, ast.Assign) and len(n.targets) == 1
            and src_of(n.targets[0]) == '_complements']
    if len(vals) != 1 or not isinstance(vals[0], ast.Dict):
        raise Unsupported('_complements is not one module-level dict literal')
    for n in ast.walk(tree):          # no later mutation of the dict
        if isinstance(n, (ast.Subscript, ast.Attribute)) and isinstance(getattr(n, 'ctx', None), (ast.Store, ast.Del)) \
                and '_complements' in src_of(n):
            raise Unsupported('_complements is modified: %s' % src_of(n))
        if isinstance(n, ast.Call) and src_of(n.func) in ('_complements.update', '_complements.pop', '_complements.setdefault',
                                                            '_complements.clear', '_complements.popitem'):
            raise Unsupported('_complements is modified: %s' % src_of(n))
    pairs = []
    for k, v in zip(vals[0].keys, vals[0].values):
        if k is None:
            raise Unsupported('dict unpacking in _complements')
        pairs.append('(%d, %d)' % (char_const(k), char_const(v)))
    return 'Definition gen_complements : list (Z * Z) :=\n  [%s].\n' % '; '.join(pairs)


def ord_expr(node, kname, vname):
    """ord(<key|value>[.lower()|.upper()]) -> Gallina over the code points key, value"""
    if not (isinstance(node, ast.Call) and src_of(node.func) == 'ord' and len(node.args) == 1 and not node.keywords):
        raise Unsupported('not ord(...): %s' % src_of(node))
    a = node.args[0]
    if isinstance(a, ast.Name) and a.id in (kname, vname):
        return 'key' if a.id == kname else 'value'
    if isinstance(a, ast.Call) and isinstance(a.func, ast.Attribute) and a.func.attr in ('lower', 'upper') and not a.args \
            and not a.keywords and isinstance(a.func.value, ast.Name) and a.func.value.id in (kname, vname):
        return '(%s %s)' % (a.func.attr, 'key' if a.func.value.id == kname else 'value')
    raise Unsupported('character expression outside the subset: %s' % src_of(node))


def gen_ascii(tree):
    f = find_function(tree, '_get_ascii_complement_lookup')
    body = body_statements(f)
    if len(body) != 3:
        raise Unsupported('_get_ascii_complement_lookup is not (table, loop, return)')
    a, loop, ret = body
    # values = np.zeros(<n>, dtype=np.uint8)
    if not (isinstance(a, ast.Assign) and len(a.targets) == 1 and isinstance(a.targets[0], ast.Name)
            and isinstance(a.value, ast.Call) and src_of(a.value.func) == 'np.zeros' and len(a.value.args) == 1
            and isinstance(a.value.args[0], ast.Constant) and isinstance(a.value.args[0].value, int)
            and [(k.arg, src_of(k.value)) for k in a.value.keywords] == [('dtype', 'np.uint8')]):
        raise Unsupported('table is not np.zeros(<int>, dtype=np.uint8): %s' % src_of(a))
    tbl, size = a.targets[0].id, a.value.args[0].value
    # for key, value in _complements.items():
    if not (isinstance(loop, ast.For) and not loop.orelse and src_of(loop.iter) == '_complements.items()'
            and isinstance(loop.target, ast.Tuple) and len(loop.target.elts) == 2
            and all(isinstance(e, ast.Name) for e in loop.target.elts)):
        raise Unsupported('loop is not `for key, value in _complements.items()`: %s' % src_of(loop).split('\n')[0])
    kname, vname = (e.id for e in loop.target.elts)
    assigns = []
    for st in loop.body:
        if not (isinstance(st, ast.Assign) and len(st.targets) == 1 and isinstance(st.targets[0], ast.Subscript)
                and isinstance(st.targets[0].value, ast.Name) and st.targets[0].value.id == tbl):
            raise Unsupported('loop statement is not `%s[...] = ...`: %s' % (tbl, src_of(st)))
        assigns.append('(%s, %s)' % (ord_expr(st.targets[0].slice, kname, vname), ord_expr(st.value, kname, vname)))
    # return Lookup(EncodedArray(values, BaseEncoding))
    if not (isinstance(ret, ast.Return) and src_of(ret.value) == 'Lookup(EncodedArray(%s, BaseEncoding))' % tbl):
        raise Unsupported('return is not Lookup(EncodedArray(%s, BaseEncoding)): %s' % (tbl, src_of(ret)))
    return ('Definition gen_ascii_size : Z := %d.\nDefinition gen_ascii_fill : Z := 0.\n'
            'Definition gen_ascii_assign (key value : Z) : list (Z * Z) :=\n  [%s].\n' % (size, '; '.join(assigns)))


def gen_alpha(tree):
    f = find_function(tree, '_get_alphabet_encoding_complement_lookup')
    if [a.arg for a in f.args.args] != ['alphabet_encoding']:
        raise Unsupported('unexpected parameters of _get_alphabet_encoding_complement_lookup')
    body = body_statements(f)
    if len(body) != 3:
        raise Unsupported('_get_alphabet_encoding_complement_lookup is not (alphabet, new_alphabet, return)')
    if src_of(body[0]) != 'alphabet = alphabet_encoding.get_alphabet()':
        raise Unsupported('unexpected: %s' % src_of(body[0]))
    st = body[1]
    ok = (isinstance(st, ast.Assign) and src_of(st.targets[0]) == 'new_alphabet' and isinstance(st.value, ast.Call)
          and src_of(st.value.func) == "''.join" and len(st.value.args) == 1 and isinstance(st.value.args[0], ast.GeneratorExp))
    if not ok:
        raise Unsupported('new_alphabet is not "".join(<generator>): %s' % src_of(st))
    g = st.value.args[0]
    if not (len(g.generators) == 1 and not g.generators[0].ifs and isinstance(g.generators[0].target, ast.Name)
            and src_of(g.generators[0].iter) == 'alphabet'
            and src_of(g.elt) == '_complements[%s]' % g.generators[0].target.id):
        raise Unsupported('generator is not `_complements[c] for c in alphabet`: %s' % src_of(g))
    same = src_of(body[2]) == 'return Lookup(as_encoded_array(new_alphabet, alphabet_encoding), alphabet_encoding)'
    if not same:
        raise Unsupported('unexpected return: %s' % src_of(body[2]))
    return ('Definition gen_new_alphabet {B : Type} (complements_get : Z -> B) (alphabet : list Z) : list B :=\n'
            '  map (fun c => complements_get c) alphabet.\n'
            'Definition gen_alpha_lookup_same_encoding : bool := true.\n')


def gen_complement_shape(tree):
    f = find_function(tree, 'complement')
    if [a.arg for a in f.args.args] != ['_array']:
        raise Unsupported('unexpected parameters of complement')
    want = ['array = _array',
            'if isinstance(_array, EncodedRaggedArray):\n    array = _array.ravel()',
            'assert isinstance(array, EncodedArray)',
            'lookup = _get_complement_lookup(array.encoding)',
            'new_data = lookup[array]',
            'if isinstance(_array, EncodedRaggedArray):\n    new_data = EncodedRaggedArray(new_data, _array._shape)',
            'return new_data']
    got = [src_of(s) for s in body_statements(f)]
    if got != want:
        raise Unsupported('complement() is not the expected (ravel, lookup, re-wrap with the shape read after ravel) sequence: %r' % got)
    return 'Definition gen_complement_rewraps_current_shape : bool := true.\n'


def gen_revcomp(tree):
    f = find_function(tree, 'get_reverse_complement')
    got = [src_of(s) for s in body_statements(f)]
    if got != ['sequence = as_encoded_array(sequence)', 'return complement(sequence)[..., ::-1]']:
        raise Unsupported('get_reverse_complement is not complement(sequence)[..., ::-1]: %r' % got)
    return 'Definition gen_revcomp_reverses_rows : bool := true.\n'


def where_site(func, call, strand_srcs, seq_params=()):
    """np.where(<mask>, x, y) -> (ord c, x is the reverse complement, row form, mask broadcast over x) where <mask> is
    `(<strand> == "<c>")[:, np.newaxis]` (column form: npstructures decides whether to broadcast; the code before the repair)
    or `broadcast_row_mask(<strand> == "<c>", S)` with S one of the two operands (row form: explicit ragged mask).
    One operand must be get_reverse_complement(S') (directly or through a once-assigned local), the other S' itself."""
    if not (isinstance(call, ast.Call) and src_of(call.func) == 'np.where' and len(call.args) == 3 and not call.keywords):
        raise Unsupported('not np.where(mask, x, y): %s' % src_of(call))
    m = call.args[0]
    if (isinstance(m, ast.Subscript) and isinstance(m.slice, ast.Tuple) and len(m.slice.elts) == 2
            and isinstance(m.slice.elts[0], ast.Slice) and m.slice.elts[0].lower is None and m.slice.elts[0].upper is None
            and m.slice.elts[0].step is None and src_of(m.slice.elts[1]) == 'np.newaxis'):
        cmp_node, row_form, over_x = m.value, False, False
    elif (isinstance(m, ast.Call) and src_of(m.func) == 'broadcast_row_mask' and len(m.args) == 2 and not m.keywords):
        cmp_node, row_form = m.args[0], True
        over = src_of(m.args[1])
        if over == src_of(call.args[1]):
            over_x = True
        elif over == src_of(call.args[2]):
            over_x = False
        else:
            raise Unsupported('row mask is broadcast over %s, which is neither np.where operand' % over)
    else:
        raise Unsupported('mask is neither (<strand> == "<c>")[:, np.newaxis] nor broadcast_row_mask(<strand> == "<c>", S): %s' % src_of(m))
    if not (isinstance(cmp_node, ast.Compare) and len(cmp_node.ops) == 1 and isinstance(cmp_node.ops[0], ast.Eq)
            and src_of(cmp_node.left) in strand_srcs):
        raise Unsupported('mask test is not <strand> == "<c>": %s' % src_of(cmp_node))
    sym = char_const(cmp_node.comparators[0])

    def resolve(node):
        """-> ('rc', S source) or ('fwd', source)"""
        if isinstance(node, ast.Call) and src_of(node.func) == 'get_reverse_complement' and len(node.args) == 1 and not node.keywords:
            return 'rc', src_of(node.args[0])
        if isinstance(node, ast.Name):
            vals = [n.value for n in ast.walk(func) if isinstance(n, ast.Assign) and len(n.targets) == 1
                    and src_of(n.targets[0]) == node.id]
            if len(vals) == 1 and isinstance(vals[0], ast.Call) and src_of(vals[0].func) == 'get_reverse_complement' \
                    and len(vals[0].args) == 1 and not vals[0].keywords:
                return 'rc', src_of(vals[0].args[0])
            return 'fwd', node.id
        raise Unsupported('operand outside the subset: %s' % src_of(node))
    (kx, sx), (ky, sy) = resolve(call.args[1]), resolve(call.args[2])
    if {kx, ky} != {'rc', 'fwd'} or sx != sy:
        raise Unsupported('operands are not a sequence and its reverse complement: %s / %s' % (src_of(call.args[1]), src_of(call.args[2])))
    return sym, kx == 'rc', row_form, over_x


def imports_row_mask(tree, module_is_dna):
    """broadcast_row_mask must be the helper of sequence/dna.py (defined there / imported from there, never rebound)"""
    if module_is_dna:
        defs = [n for n in tree.body if isinstance(n, ast.FunctionDef) and n.name == 'broadcast_row_mask']
        ok = len(defs) == 1
    else:
        ok = any(isinstance(n, ast.ImportFrom) and n.level == 2 and n.module == 'sequence.dna'
                 and any(a.name == 'broadcast_row_mask' and a.asname is None for a in n.names) for n in tree.body)
    rebound = [n for n in ast.walk(tree) if isinstance(n, ast.Name) and n.id == 'broadcast_row_mask' and isinstance(n.ctx, ast.Store)]
    if not ok or rebound:
        raise Unsupported('broadcast_row_mask is not the helper of bionumpy/sequence/dna.py here')


def gen_row_mask(tree):
    """dna.py broadcast_row_mask(mask, sequences): RaggedArray(np.repeat(<mask as flat bool>, lengths), lengths),
    lengths = sequences.lengths -> the flat data as a function of (mask, lengths); the shape is `lengths`."""
    f = find_function(tree, 'broadcast_row_mask')
    if [a.arg for a in f.args.args] != ['mask', 'sequences'] or f.args.vararg or f.args.kwarg or f.args.kwonlyargs or f.args.defaults:
        raise Unsupported('unexpected parameters of broadcast_row_mask')
    if f.decorator_list:
        raise Unsupported('broadcast_row_mask is decorated')
    got = [src_of(x) for x in body_statements(f)]
    want = ['lengths = sequences.lengths',
            'return RaggedArray(np.repeat(np.asarray(mask, dtype=bool).ravel(), lengths), lengths)']
    if got != want:
        raise Unsupported('broadcast_row_mask is not RaggedArray(np.repeat(mask, lengths), lengths): %r' % got)
    if not any(isinstance(n, ast.ImportFrom) and n.module == 'npstructures' and n.level == 0
               and any(a.name == 'RaggedArray' and a.asname is None for a in n.names) for n in tree.body):
        raise Unsupported('RaggedArray is not npstructures.RaggedArray in dna.py')
    return ('Definition gen_row_mask_flat (mask : list bool) (lengths : list Z) : list bool :=\n'
            '  repeat_each mask lengths.\n'
            'Definition gen_row_mask_shape_is_lengths : bool := true.\n')


def fmt_site(name, site):
    b = lambda v: 'true' if v else 'false'
    assert name.endswith('_where')
    return ('Definition %s : Z * bool := (%d, %s).\n' % (name, site[0], b(site[1]))
            + '(* (mask is an explicit row mask broadcast_row_mask(.., S), S is the first np.where operand) *)\n'
            + 'Definition %s : bool * bool := (%s, %s).\n' % (name[:-len('_where')] + '_mask', b(site[2]), b(site[3])))


def gen_dna_stranded(tree):
    f = find_function(tree, 'get_strand_specific_sequences')
    if [a.arg for a in f.args.args] != ['encoded_array', 'stranded_intervals']:
        raise Unsupported('unexpected parameters of get_strand_specific_sequences')
    body = body_statements(f)
    if len(body) != 3 or not isinstance(body[2], ast.Return):
        raise Unsupported('get_strand_specific_sequences is not (slices, reverse complement, return np.where)')
    rel = body[0]
    if not (isinstance(rel, ast.Assign) and isinstance(rel.targets[0], ast.Name) and isinstance(rel.value, ast.Subscript)
            and src_of(rel.value.value) == 'encoded_array' and isinstance(rel.value.slice, ast.Slice)
            and rel.value.slice.step is None and rel.value.slice.lower is not None and rel.value.slice.upper is not None):
        raise Unsupported('slices are not encoded_array[lo:hi]: %s' % src_of(rel))
    k = Kernel(f, {'stranded_intervals.start': 'start', 'stranded_intervals.stop': 'stop'})
    txt = k.define('gen_dna_slice_start', ['start', 'stop'], rel.value.slice.lower)
    txt += k.define('gen_dna_slice_stop', ['start', 'stop'], rel.value.slice.upper)
    site = where_site(f, body[2].value, ('stranded_intervals.strand.ravel()', 'stranded_intervals.strand'))
    if site[2]:
        imports_row_mask(tree, True)
    # the sequence that is complemented must be the slices
    rc = body[1]
    if not (isinstance(rc, ast.Assign) and len(rc.targets) == 1 and isinstance(rc.targets[0], ast.Name)
            and src_of(rc.value) == 'get_reverse_complement(%s)' % rel.targets[0].id):
        raise Unsupported('unexpected: %s' % src_of(rc))
    return txt + fmt_site('gen_dna_where', site)


def gen_genomic(tree):
    f = find_function(tree, 'GenomicSequence.extract_intervals')
    got = [src_of(s) for s in body_statements(f)]
    if len(got) != 4 or got[0] != 'sequences = self._extract_intervals(intervals)' or got[1] != 'sequences = dna_encode(sequences)' \
            or got[3] != 'return sequences':
        raise Unsupported('extract_intervals is not (extract, dna_encode, if stranded: np.where, return): %r' % got)
    st = body_statements(f)[2]
    if not (isinstance(st, ast.If) and src_of(st.test) == 'stranded' and not st.orelse and len(st.body) == 1
            and isinstance(st.body[0], ast.Assign) and src_of(st.body[0].targets[0]) == 'sequences'):
        raise Unsupported('unexpected stranded branch: %s' % src_of(st))
    call = st.body[0].value
    if not (isinstance(call, ast.Call) and len(call.args) == 3):
        raise Unsupported('unexpected stranded branch: %s' % src_of(st))
    # `sequences` is re-assigned in this function, so the forward operand is matched by name here
    site = where_site(ast.Module(body=[], type_ignores=[]), call, ('intervals.strand', 'intervals.strand.ravel()'))
    if site[2]:
        imports_row_mask(tree, False)
    return fmt_site('gen_genomic_where', site)


def gen_genes(tree):
    f = find_function(tree, 'get_transcript_sequences')
    calls = [n for n in ast.walk(f) if isinstance(n, ast.Call) and src_of(n.func) == 'np.where']
    if len(calls) != 1:
        raise Unsupported('get_transcript_sequences has %d np.where calls' % len(calls))
    site = where_site(ast.Module(body=[], type_ignores=[]), calls[0], ("as_encoded_array(''.join(strands))",))
    if site[2]:
        imports_row_mask(tree, False)
    return fmt_site('gen_genes_where', site)


# ----------------------------------------------------------------------------- sequence/translate.py, kmers.py
def class_assign(cls, name):
    vals = [n.value for n in cls.body if isinstance(n, ast.Assign) and len(n.targets) == 1 and src_of(n.targets[0]) == name]
    if len(vals) != 1:
        raise Unsupported('%s.%s is not assigned exactly once' % (cls.name, name))
    return vals[0]


def gen_table(tree):
    cls = find_function(tree, 'DNAToProtein')
    aa = str_const(class_assign(cls, 'amino_acids'))
    fe = class_assign(cls, 'from_encoding')
    if not (isinstance(fe, ast.Call) and src_of(fe.func) == 'AlphabetEncoding' and len(fe.args) == 1 and not fe.keywords):
        raise Unsupported('from_encoding is not AlphabetEncoding("<alphabet>"): %s' % src_of(fe))
    alph = str_const(fe.args[0])
    if alph != alph.upper():
        raise Unsupported('lower-case codon alphabet')
    lk = src_of(class_assign(cls, '_lookup'))
    if lk != 'EncodedArray(np.array([ord(c) for c in amino_acids], dtype=np.uint8), BaseEncoding)':
        raise Unsupported('_lookup is not the code points of amino_acids: %s' % lk)
    gi = find_function(tree, 'DNAToProtein.__getitem__')
    if [src_of(s) for s in body_statements(gi)] != ['return self._lookup[key.raw()]']:
        raise Unsupported('DNAToProtein.__getitem__ is not self._lookup[key.raw()]')
    return ('Definition gen_amino_acids : string := "%s"%%string.\nDefinition gen_codon_alphabet : string := "%s"%%string.\n'
            'Definition gen_table_is_code_points : bool := true.\n' % (aa, alph))


def gen_translate_call(tree):
    ws = find_function(tree, 'Translate.window_size')
    st = body_statements(ws)
    if not (len(st) == 1 and isinstance(st[0], ast.Return) and isinstance(st[0].value, ast.Constant)
            and isinstance(st[0].value.value, int) and not isinstance(st[0].value.value, bool)):
        raise Unsupported('Translate.window_size does not return an integer literal')
    init = [src_of(s) for s in body_statements(find_function(tree, 'Translate.__init__'))]
    if init != ['self._table = table', 'self._encoding = table.from_encoding']:
        raise Unsupported('Translate.__init__ changed: %r' % init)
    call = [src_of(s) for s in body_statements(find_function(tree, 'Translate.__call__'))]
    want = ['e = sequence.encoding', 'sequence = sequence[..., ::-1]', 'sequence.encoding = e',
            'kmer = KmerEncoder(self.window_size, alphabet_encoding=self._encoding)(sequence)', 'return self._table[kmer]']
    if call != want:
        raise Unsupported('Translate.__call__ is not (reverse the window, KmerEncoder(window_size, encoding), table lookup): %r' % call)
    return 'Definition gen_window_size : Z := %d.\nDefinition gen_window_reversed : bool := true.\n' % st[0].value.value


def gen_windowed(tree):
    f = find_function(tree, 'WindowFunction.windowed')
    body = body_statements(f)
    got = [src_of(s) for s in body]
    if len(got) != 6 or got[0] != 'sequences = as_encoded_array(sequences, target_encoding=self._encoding)' \
            or got[2] != 'tuples = sequences.ravel().reshape(-1, self.window_size)' or got[3] != 'tuples.encoding = self._encoding' \
            or got[4] != 'new_data = self(tuples)':
        raise Unsupported('WindowFunction.windowed changed: %r' % got)
    a = body[1]
    if not (isinstance(a, ast.Assert) and isinstance(a.test, ast.Call) and src_of(a.test.func) == 'np.all' and len(a.test.args) == 1
            and isinstance(a.test.args[0], ast.Compare) and len(a.test.args[0].ops) == 1 and isinstance(a.test.args[0].ops[0], ast.Eq)):
        raise Unsupported('length check is not assert np.all(<expr> == <expr>): %s' % got[1])
    ren = {'sequences.lengths': 'length', 'self.window_size': 'window_size'}
    k = Kernel(f, ren)
    P = ['length', 'window_size']
    deps = []
    lhs = k.expr(a.test.args[0].left, P, deps)
    rhs = k.expr(a.test.args[0].comparators[0], P, deps)
    if deps:
        raise Unsupported('length check reads locals %r' % deps)
    ret = body[5]
    if not (isinstance(ret, ast.Return) and isinstance(ret.value, ast.Call) and src_of(ret.value.func) == 'EncodedRaggedArray'
            and len(ret.value.args) == 2 and src_of(ret.value.args[0]) == 'EncodedArray(new_data, self._table.to_encoding)'):
        raise Unsupported('unexpected return: %s' % got[5])
    txt = 'Definition gen_length_check (length window_size : Z) : bool :=\n  (%s =? %s).\n' % (lhs, rhs)
    txt += k.define('gen_out_length', P, ret.value.args[1])
    txt += 'Definition gen_reshape_is_window_rows : bool := true.\n'
    return txt


def gen_kmer(tree):
    init = find_function(tree, 'KmerEncoder.__init__')
    if [a.arg for a in init.args.args] != ['self', 'k', 'alphabet_encoding']:
        raise Unsupported('unexpected parameters of KmerEncoder.__init__')
    got = [src_of(s) for s in body_statements(init)]
    need = ['self._k = k', 'self._alphabet_size = alphabet_encoding.alphabet_size', 'self._encoding = alphabet_encoding']
    if any(n not in got for n in need):
        raise Unsupported('KmerEncoder.__init__ changed: %r' % got)
    conv = single_assign(init, 'self._convolution')
    if not (isinstance(conv, ast.BinOp) and isinstance(conv.op, ast.Pow) and src_of(conv.left) == 'self._alphabet_size'
            and src_of(conv.right) == 'np.arange(self._k)'):
        raise Unsupported('_convolution is not self._alphabet_size ** np.arange(self._k): %s' % src_of(conv))
    call = [src_of(s) for s in body_statements(find_function(tree, 'KmerEncoder.__call__'))]
    want = ['sequence = as_encoded_array(sequence, target_encoding=self._encoding)',
            'return EncodedArray(sequence.data.dot(self._convolution), KmerEncoding(self._encoding, self._k))']
    if call != want:
        raise Unsupported('KmerEncoder.__call__ is not sequence.data.dot(self._convolution): %r' % call)
    return ('Definition gen_kmer_weight (alphabet_size j : Z) : Z :=\n  (alphabet_size ^ j).\n'
            'Definition gen_hash_is_dot : bool := true.\n')


def gen():
    defs = [PRELUDE]
    dna = parse('bionumpy/sequence/dna.py')
    emit(defs, 'gen_complements', lambda: gen_complements(dna))
    emit(defs, 'gen_ascii_assign', lambda: gen_ascii(dna))
    emit(defs, 'gen_new_alphabet', lambda: gen_alpha(dna))
    emit(defs, 'gen_complement_rewraps_current_shape', lambda: gen_complement_shape(dna))
    emit(defs, 'gen_revcomp_reverses_rows', lambda: gen_revcomp(dna))
    emit(defs, 'gen_row_mask_flat', lambda: gen_row_mask(dna))
    emit(defs, 'gen_dna_where', lambda: gen_dna_stranded(dna))
    emit(defs, 'gen_genomic_where', lambda: gen_genomic(parse('bionumpy/genomic_data/genomic_sequence.py')))
    emit(defs, 'gen_genes_where', lambda: gen_genes(parse('bionumpy/sequence/genes.py')))
    tr = parse('bionumpy/sequence/translate.py')
    emit(defs, 'gen_amino_acids', lambda: gen_table(tr))
    emit(defs, 'gen_window_size', lambda: gen_translate_call(tr))
    emit(defs, 'gen_out_length', lambda: gen_windowed(tr))
    emit(defs, 'gen_kmer_weight', lambda: gen_kmer(parse('bionumpy/sequence/kmers.py')))
    return ('bionumpy/sequence/{dna,translate,kmers,genes}.py, bionumpy/genomic_data/genomic_sequence.py', defs)

"""gen_c06 — regenerates coq/theories/Gen/C06.v from the alphabet-encoding kernels of /repo.

Kernels (source function -> generated definition):
  alphabet_encoding.AlphabetEncoding.__init__      self._raw_alphabet comprehension       gen_raw_alphabet
  alphabet_encoding.AlphabetEncoding._initialize   the whole table construction            gen_build_lookup
  alphabet_encoding.AlphabetEncoding._encode       lookup per element, rejection test,     gen_encode_elem, gen_encode_reject,
                                                   invalid mark, which offset is reported  gen_encode_invalid_code, gen_encode_offset_pick
  alphabet_encoding.AlphabetEncoding._decode       index the alphabet                      gen_decode_elem
  encoded_array.as_encoded_array (re-targeting)    m, the two prefix lengths, the fit test gen_retarget_m, gen_retarget_prefix_src,
                                                                                           gen_retarget_prefix_dst, gen_retarget_fits
  encodings/__init__.DigitEncodingFactory          _encode, _decode, the three min codes   gen_numeric_encode, gen_numeric_decode,
                                                                                           gen_digit_min_code, gen_quality_min_code, gen_cigar_min_code

Reading conventions (trusted, stated in notes/C06.md): a one-character str is its code point, so `ord(c)` is c,
`c.upper()` / `c.lower()` are Base.Prims.upper / lower (ASCII); `np.array(list, dtype=np.uint8)` and `int(...)` do not change
values that fit; `np.full(n, v, ...)` is `repeat v n`; `np.arange(len(x))` is `arange (len x)`; `tbl[idx] = vals` with an
integer-array idx assigns in order (np_setitem, last write wins); `a[idx]` read per element is `nthZ a idx`; an element-wise
comparison is read per element; `np.any(c)` / `x.ravel()` do not change the per-element reading; `np.flatnonzero(c)[k]` is
the k-th position where c holds.  Everything outside these shapes raises Unsupported (definition emitted as `unit`).
"""
import ast
import os

from translate.py2coq import Kernel, Unsupported, find_function, src_of, CMPOPS

REPO = os.environ.get('VERIF_REPO', '/repo')

PRELUDE = '''From Coq Require Import List Bool.
From BNP Require Import Base.Prims.
Import ListNotations.
Open Scope Z_scope.
(* reading of `tbl[idx] = vals` for an integer-array idx: element assignments in order, the last one wins *)
Fixpoint np_set (i : nat) (v : Z) (l : list Z) : list Z :=
  match l with
  | [] => []
  | x :: r => match i with O => v :: r | S i' => x :: np_set i' v r end
  end.
Fixpoint np_setitem (tbl idx vals : list Z) : list Z :=
  match idx, vals with
  | i :: idx', v :: vals' => np_setitem (np_set (Z.to_nat i) v tbl) idx' vals'
  | _, _ => tbl
  end.
'''


def parse(rel):
    return ast.parse(open(os.path.join(REPO, rel)).read())


def emit(defs, name, fn):
    try:
        defs.append(fn())
    except Unsupported as e:
        defs.append('(* NOT TRANSLATED: %s *)\nDefinition %s : unit := tt.\n' % (str(e).replace('*)', '* )'), name))
    except Exception as e:
        defs.append('(* NOT TRANSLATED: %s: %s *)\nDefinition %s : unit := tt.\n' % (type(e).__name__, str(e).replace('*)', '* )'), name))


def zconst(node):
    if isinstance(node, ast.Constant) and isinstance(node.value, int) and not isinstance(node.value, bool):
        return str(node.value) if node.value >= 0 else '(%d)' % node.value
    if isinstance(node, ast.UnaryOp) and isinstance(node.op, ast.USub) and isinstance(node.operand, ast.Constant) \
            and isinstance(node.operand.value, int):
        return '(-%d)' % node.operand.value
    raise Unsupported('not an integer literal: %s' % src_of(node))


def char_expr(node, var):
    """expression over one character variable -> Gallina over its code"""
    if isinstance(node, ast.Name) and node.id == var:
        return 'c'
    if isinstance(node, ast.Call) and not node.keywords:
        if isinstance(node.func, ast.Name) and node.func.id == 'ord' and len(node.args) == 1:
            return char_expr(node.args[0], var)
        if isinstance(node.func, ast.Attribute) and node.func.attr in ('upper', 'lower') and not node.args:
            return '(%s %s)' % (node.func.attr, char_expr(node.func.value, var))
    raise Unsupported('character expression outside the subset: %s' % src_of(node))


def list_comp(node, env):
    """[f(c) for c in <name in env>] -> map (fun c => f c) <list>"""
    if not (isinstance(node, ast.ListComp) and len(node.generators) == 1):
        raise Unsupported('not a single-generator list comprehension: %s' % src_of(node))
    g = node.generators[0]
    if g.ifs or g.is_async or not isinstance(g.target, ast.Name):
        raise Unsupported('filtered comprehension: %s' % src_of(node))
    it = src_of(g.iter)
    if it not in env:
        raise Unsupported('comprehension over unknown list %s' % it)
    return '(map (fun c => %s) %s)' % (char_expr(node.elt, g.target.id), env[it])


def uint8_array(node, env):
    """np.array(<list comprehension>, dtype=np.uint8)"""
    if isinstance(node, ast.Call) and src_of(node.func) == 'np.array' and len(node.args) == 1 \
            and [(k.arg, src_of(k.value)) for k in node.keywords] == [('dtype', 'np.uint8')]:
        return list_comp(node.args[0], env)
    raise Unsupported('not np.array([...], dtype=np.uint8): %s' % src_of(node))


def arange_len(node, env):
    if isinstance(node, ast.Call) and src_of(node.func) == 'np.arange' and len(node.args) == 1 and not node.keywords:
        a = node.args[0]
        if isinstance(a, ast.Call) and src_of(a.func) == 'len' and len(a.args) == 1 and src_of(a.args[0]) in env:
            return '(arange (len %s))' % env[src_of(a.args[0])]
    raise Unsupported('not np.arange(len(<list>)): %s' % src_of(node))


# ----------------------------------------------------------------------------- alphabet_encoding.py
def gen_raw_alphabet(tree):
    f = find_function(tree, 'AlphabetEncoding.__init__')
    vals = [n.value for n in ast.walk(f) if isinstance(n, ast.Assign) and len(n.targets) == 1
            and src_of(n.targets[0]) == 'self._raw_alphabet']
    if len(vals) != 1:
        raise Unsupported('self._raw_alphabet is not assigned exactly once')
    return 'Definition gen_raw_alphabet (alphabet : list Z) : list Z :=\n  %s.\n' % list_comp(vals[0], {'alphabet': 'alphabet'})


IGNORED_INIT_TARGETS = ('self._mask', 'self._is_initialized')


def gen_build_lookup(tree):
    """straight-line reading of _initialize: every statement must be one of the known shapes"""
    f = find_function(tree, 'AlphabetEncoding._initialize')
    env = {}
    body = list(f.body)
    # leading guard: `if self._is_initialized and not force: return`
    if body and isinstance(body[0], ast.If) and len(body[0].body) == 1 and isinstance(body[0].body[0], ast.Return) \
            and body[0].body[0].value is None and not body[0].orelse:
        body = body[1:]
    for st in body:
        if isinstance(st, ast.Expr) and isinstance(st.value, ast.Constant) and isinstance(st.value.value, str):
            continue
        if not (isinstance(st, ast.Assign) and len(st.targets) == 1):
            raise Unsupported('_initialize: statement outside the subset: %s' % src_of(st))
        tgt, val = st.targets[0], st.value
        ts = src_of(tgt)
        if isinstance(tgt, ast.Subscript):
            base = src_of(tgt.value)
            if base in IGNORED_INIT_TARGETS:
                continue
            if base != 'self._lookup' or base not in env:
                raise Unsupported('_initialize: item assignment to %s' % base)
            idx = src_of(tgt.slice)
            if idx not in env:
                raise Unsupported('_initialize: index array %s unknown' % idx)
            env[base] = '(np_setitem %s %s %s)' % (env[base], env[idx], arange_len(val, env))
            continue
        if ts in IGNORED_INIT_TARGETS:
            continue
        if ts == 'alphabet' and src_of(val) == 'self._raw_alphabet':
            env['alphabet'] = 'alphabet'
        elif ts in ('self._alphabet', 'lower_alphabet') and src_of(val) == ts and ts in env:
            pass                                     # `self._alphabet = self._alphabet`
        elif ts in ('self._alphabet', 'lower_alphabet'):
            env[ts] = uint8_array(val, env)
        elif ts == 'self._lookup':
            if isinstance(val, ast.Call) and src_of(val.func) == 'np.full' and len(val.args) == 2 \
                    and [(k.arg, src_of(k.value)) for k in val.keywords] == [('dtype', 'np.uint8')]:
                env[ts] = '(repeat %s (Z.to_nat %s))' % (zconst(val.args[1]), zconst(val.args[0]))
            else:
                raise Unsupported('_initialize: self._lookup is not np.full(n, v, dtype=np.uint8)')
        else:
            raise Unsupported('_initialize: assignment to %s' % ts)
    if 'self._lookup' not in env:
        raise Unsupported('_initialize: no lookup table')
    return 'Definition gen_build_lookup (alphabet : list Z) : list Z :=\n  %s.\n' % env['self._lookup']


def _encode_parts(tree):
    f = find_function(tree, 'AlphabetEncoding._encode')
    ret = [n.value for n in ast.walk(f) if isinstance(n, ast.Assign) and len(n.targets) == 1 and src_of(n.targets[0]) == 'ret']
    if len(ret) != 1 or src_of(ret[0]) != 'self._lookup[byte_array]':
        raise Unsupported('_encode: ret is not self._lookup[byte_array]')
    ifs = [n for n in f.body if isinstance(n, ast.If)]
    if len(ifs) != 1:
        raise Unsupported('_encode: expected exactly one if')
    test = ifs[0].test
    if not (isinstance(test, ast.Call) and src_of(test.func) == 'np.any' and len(test.args) == 1 and not test.keywords
            and isinstance(test.args[0], ast.Compare) and len(test.args[0].ops) == 1):
        raise Unsupported('_encode: rejection test is not np.any(<comparison>)')
    if not any(isinstance(s, ast.Raise) for s in ifs[0].body) or ifs[0].orelse:
        raise Unsupported('_encode: the rejection branch does not raise')
    last = f.body[-1]
    if not (isinstance(last, ast.Return) and src_of(last.value) == 'ret'):
        raise Unsupported('_encode: does not return ret')
    cmp_ = test.args[0]
    off = [n.value for n in ifs[0].body if isinstance(n, ast.Assign) and src_of(n.targets[0]) == 'offset']
    if len(off) != 1:
        raise Unsupported('_encode: offset is not assigned exactly once')
    o = off[0]
    if not (isinstance(o, ast.Subscript) and isinstance(o.value, ast.Call) and src_of(o.value.func) == 'np.flatnonzero'
            and len(o.value.args) == 1 and isinstance(o.value.args[0], ast.Compare)):
        raise Unsupported('_encode: offset is not np.flatnonzero(<comparison>)[k]')
    c = o.value.args[0]
    if not (src_of(c.left) == 'ret.ravel()' and len(c.ops) == 1 and isinstance(c.ops[0], ast.Eq)):
        raise Unsupported('_encode: offset comparison is not ret.ravel() == <mark>')
    raises = [s for s in ifs[0].body if isinstance(s, ast.Raise)]
    ex = raises[0].exc
    if not (isinstance(ex, ast.Call) and src_of(ex.func) == 'EncodingError' and len(ex.args) == 2 and src_of(ex.args[1]) == 'offset'):
        raise Unsupported('_encode: does not raise EncodingError(message, offset)')
    return cmp_, zconst(c.comparators[0]), zconst(o.slice)


def gen_encode_reject(tree):
    cmp_, _, _ = _encode_parts(tree)
    if type(cmp_.ops[0]) not in CMPOPS:
        raise Unsupported('_encode: comparison operator')
    ren = {'ret': 'r', 'self._alphabet_size': 'n'}
    l, r = src_of(cmp_.left), src_of(cmp_.comparators[0])
    if l not in ren or r not in ren:
        raise Unsupported('_encode: rejection test compares %s with %s' % (l, r))
    return 'Definition gen_encode_reject (r n : Z) : bool :=\n  (%s %s %s).\n' % (ren[l], CMPOPS[type(cmp_.ops[0])], ren[r])


def gen_alphabet_size(tree):
    f = find_function(tree, 'AlphabetEncoding.__init__')
    vals = [n.value for n in ast.walk(f) if isinstance(n, ast.Assign) and src_of(n.targets[0]) == 'self._alphabet_size']
    if len(vals) != 1 or src_of(vals[0]) != 'len(self._raw_alphabet)':
        raise Unsupported('self._alphabet_size is not len(self._raw_alphabet)')
    return 'Definition gen_alphabet_size (raw_alphabet : list Z) : Z :=\n  (len raw_alphabet).\n'


def gen_decode_elem(tree):
    f = find_function(tree, 'AlphabetEncoding._decode')
    last = f.body[-1]
    arr = [n.value for n in f.body if isinstance(n, ast.Assign) and src_of(n.targets[0]) == 'array']
    if not (isinstance(last, ast.Return) and src_of(last.value) == 'self._alphabet[array]'
            and len(arr) == 1 and src_of(arr[0]) == 'np.asarray(encoded)'):
        raise Unsupported('_decode is not self._alphabet[np.asarray(encoded)]')
    return 'Definition gen_decode_elem (alphabet : list Z) (k : Z) : Z :=\n  (nthZ alphabet k).\n'


# ----------------------------------------------------------------------------- encoded_array.as_encoded_array
def _retarget_nodes(tree):
    f = find_function(tree, 'as_encoded_array')
    ms = [n for n in ast.walk(f) if isinstance(n, ast.Assign) and len(n.targets) == 1 and src_of(n.targets[0]) == 'm']
    if len(ms) != 1:
        raise Unsupported('as_encoded_array: m is not assigned exactly once')
    # the `if` that follows directly
    parent = None
    for n in ast.walk(f):
        for fld in ('body', 'orelse'):
            b = getattr(n, fld, None)
            if isinstance(b, list) and ms[0] in b:
                parent = b
    i = parent.index(ms[0])
    if i + 1 >= len(parent) or not isinstance(parent[i + 1], ast.If):
        raise Unsupported('as_encoded_array: no if after m')
    return ms[0].value, parent[i + 1]


def gen_retarget_m(tree):
    val, _ = _retarget_nodes(tree)
    if not (isinstance(val, ast.IfExp) and isinstance(val.test, ast.Compare) and len(val.test.ops) == 1
            and type(val.test.ops[0]) in CMPOPS):
        raise Unsupported('m is not `a if <comparison> else b`: %s' % src_of(val))
    k = Kernel(ast.parse('def f():\n    pass').body[0], {'int(s.raw().max())': 'mx', 's.raw().max()': 'mx', 's.size': 'size'})
    P = ['size', 'mx']
    d = []
    txt = '(if (%s %s %s) then %s else %s)' % (k.expr(val.test.left, P, d), CMPOPS[type(val.test.ops[0])],
                                               k.expr(val.test.comparators[0], P, d), k.expr(val.body, P, d), k.expr(val.orelse, P, d))
    if d:
        raise Unsupported('m reads locals %s' % d)
    return 'Definition gen_retarget_m (size mx : Z) : Z :=\n  %s.\n' % txt


def _prefix(tree):
    _, iff = _retarget_nodes(tree)
    t = iff.test
    if not (isinstance(t, ast.Compare) and len(t.ops) == 1 and isinstance(t.ops[0], ast.Eq)):
        raise Unsupported('re-target test is not an equality: %s' % src_of(t))
    out = []
    for side, base in ((t.left, 's.encoding.get_alphabet()'), (t.comparators[0], 'target_encoding.get_alphabet()')):
        if not (isinstance(side, ast.Subscript) and src_of(side.value) == base and isinstance(side.slice, ast.Slice)
                and side.slice.lower is None and side.slice.step is None and side.slice.upper is not None):
            raise Unsupported('re-target test side is not %s[:hi]: %s' % (base, src_of(side)))
        out.append(side.slice.upper)
    return out, iff


def gen_retarget_prefix(tree, which):
    ups, _ = _prefix(tree)
    k = Kernel(ast.parse('def f():\n    pass').body[0], {})
    d = []
    txt = k.expr(ups[which], ['m'], d)
    if d:
        raise Unsupported('prefix length reads locals %s' % d)
    return 'Definition gen_retarget_prefix_%s (m : Z) : Z :=\n  %s.\n' % (('src', 'dst')[which], txt)


def gen_retarget_fits(tree):
    _, iff = _prefix(tree)
    inner = iff.body[0] if iff.body else None
    if not (isinstance(inner, ast.If) and isinstance(inner.test, ast.UnaryOp) and isinstance(inner.test.op, ast.Not)
            and isinstance(inner.test.operand, ast.Compare) and len(inner.test.operand.ops) == 1
            and len(inner.body) == 1 and isinstance(inner.body[0], ast.Raise) and not inner.orelse):
        raise Unsupported('no `if not <comparison>: raise` first in the compatible branch')
    c = inner.test.operand
    ren = {'m': 'm', 'len(target_encoding.get_alphabet())': 'len_target'}
    l, r = src_of(c.left), src_of(c.comparators[0])
    if l not in ren or r not in ren or type(c.ops[0]) not in CMPOPS:
        raise Unsupported('fit test compares %s with %s' % (l, r))
    # whatever follows must hand the raw data back unchanged under the target encoding
    rets = [n for n in ast.walk(iff) if isinstance(n, ast.Return)]
    want = {'s.__class__(s.raw(), target_encoding)', 's.__class__(EncodedArray(s.ravel().raw(), target_encoding), s.shape)'}
    if {src_of(n.value) for n in rets} != want:
        raise Unsupported('compatible branch returns %s' % sorted(src_of(n.value) for n in rets))
    return 'Definition gen_retarget_fits (m len_target : Z) : bool :=\n  (%s %s %s).\n' % (ren[l], CMPOPS[type(c.ops[0])], ren[r])


# ----------------------------------------------------------------------------- encodings/__init__.py
def gen_numeric(tree, meth, name, arg):
    f = find_function(tree, 'DigitEncodingFactory.' + meth)
    if not (len(f.body) == 1 and isinstance(f.body[0], ast.Return)):
        raise Unsupported('%s is not a single return' % meth)
    if [a.arg for a in f.args.args] != ['self', arg]:
        raise Unsupported('%s parameters' % meth)
    k = Kernel(f, {'self._min_code': 'min_code'})
    return k.define(name, [arg, 'min_code'], f.body[0].value)


def gen_min_code(tree, const, name):
    init = find_function(tree, 'DigitEncodingFactory.__init__')
    if not (len(init.body) == 1 and src_of(init.body[0]) == 'self._min_code = ord(min_code)'):
        raise Unsupported('DigitEncodingFactory.__init__ is not self._min_code = ord(min_code)')
    vals = [n.value for n in tree.body if isinstance(n, ast.Assign) and len(n.targets) == 1 and src_of(n.targets[0]) == const]
    if len(vals) != 1:
        raise Unsupported('%s is not assigned exactly once at module level' % const)
    v = vals[0]
    if not (isinstance(v, ast.Call) and src_of(v.func) == 'DigitEncodingFactory' and len(v.args) == 1 and not v.keywords):
        raise Unsupported('%s is not DigitEncodingFactory(<char>)' % const)
    a = v.args[0]
    if isinstance(a, ast.Constant) and isinstance(a.value, str) and len(a.value) == 1:
        code = ord(a.value)
    elif isinstance(a, ast.Call) and src_of(a.func) == 'chr' and len(a.args) == 1 and isinstance(a.args[0], ast.Constant) \
            and isinstance(a.args[0].value, int):
        code = a.args[0].value
    else:
        raise Unsupported('%s: argument %s' % (const, src_of(a)))
    return 'Definition %s : Z := %d.\n' % (name, code)


def gen():
    rels = ['bionumpy/encodings/alphabet_encoding.py', 'bionumpy/encoded_array.py', 'bionumpy/encodings/__init__.py']
    defs = [PRELUDE]
    trees = []
    for r in rels:
        try:
            trees.append(parse(r))
        except Exception:
            trees.append(ast.parse(''))
    ae, ea, ini = trees
    emit(defs, 'gen_raw_alphabet', lambda: gen_raw_alphabet(ae))
    emit(defs, 'gen_alphabet_size', lambda: gen_alphabet_size(ae))
    emit(defs, 'gen_build_lookup', lambda: gen_build_lookup(ae))
    emit(defs, 'gen_encode_elem', lambda: (_encode_parts(ae), 'Definition gen_encode_elem (lookup : list Z) (b : Z) : Z :=\n  (nthZ lookup b).\n')[1])
    emit(defs, 'gen_encode_reject', lambda: gen_encode_reject(ae))
    emit(defs, 'gen_encode_invalid_code', lambda: 'Definition gen_encode_invalid_code : Z := %s.\n' % _encode_parts(ae)[1])
    emit(defs, 'gen_encode_offset_pick', lambda: 'Definition gen_encode_offset_pick : Z := %s.\n' % _encode_parts(ae)[2])
    emit(defs, 'gen_decode_elem', lambda: gen_decode_elem(ae))
    emit(defs, 'gen_retarget_m', lambda: gen_retarget_m(ea))
    emit(defs, 'gen_retarget_prefix_src', lambda: gen_retarget_prefix(ea, 0))
    emit(defs, 'gen_retarget_prefix_dst', lambda: gen_retarget_prefix(ea, 1))
    emit(defs, 'gen_retarget_fits', lambda: gen_retarget_fits(ea))
    emit(defs, 'gen_numeric_encode', lambda: gen_numeric(ini, '_encode', 'gen_numeric_encode', 'bytes_array'))
    emit(defs, 'gen_numeric_decode', lambda: gen_numeric(ini, '_decode', 'gen_numeric_decode', 'digits'))
    emit(defs, 'gen_digit_min_code', lambda: gen_min_code(ini, 'DigitEncoding', 'gen_digit_min_code'))
    emit(defs, 'gen_quality_min_code', lambda: gen_min_code(ini, 'QualityEncoding', 'gen_quality_min_code'))
    emit(defs, 'gen_cigar_min_code', lambda: gen_min_code(ini, 'CigarEncoding', 'gen_cigar_min_code'))
    return ', '.join(rels), defs

"""gen_c13 — regenerates coq/theories/Gen/C13.v from the sliding-window code of /repo.

Kernels (source function -> generated definition):
  sequence/rollable.py   RollableFunction.rolling_window   upper bound of `out[..., :X]` (valid mode)   gen_stop_rollable : option Z
  sequence/kmers.py      convolution.new_func              upper bound of `out[..., :X]`                gen_stop_convolution : option Z
  sequence/position_weight_matrix.py  get_motif_scores     upper bound of `scores[..., :X]`             gen_stop_motif : option Z
  util/__init__.py       rolling_window_function.new_func  upper bound of `out[..., :X]`                gen_stop_util : option Z
  sequence/kmers.py      KmerEncoder.__init__              self._convolution at position j              gen_kmer_weight
  sequence/kmers.py      KmerEncoder.__call__              code = sequence.data.dot(self._convolution)  gen_kmer_call_is_dot : bool
  sequence/kmers.py      get_kmers                         test that selects the bit-packed path        gen_get_kmers_packed_test : bool
  encodings/kmer_encodings.py  KmerEncoding.encode         weight at position j (str and list routes)   gen_encode_weight_str, gen_encode_weight_list
  encodings/kmer_encodings.py  KmerEncoding.to_string      test, shift/mask digit, div/mod digit        gen_to_string_packed_test, gen_to_string_digit4, gen_to_string_digit
  encodings/kmer_encodings.py  KmerEncoding.get_labels     number of labels                             gen_n_labels
  sequence/minimizers.py get_minimizers / Minimizers.__init__  k-mers per window, window of the roller gen_minimizer_n_kmers, gen_minimizer_window
  sequence/position_weight_matrix.py  PWM.calculate_scores  `scores[:U] += row[sequence[L:]]`          gen_pwm_acc_stop, gen_pwm_seq_start

Reading conventions (trusted, stated in notes/C13.md): `np.arange(k)` read at position j is j (element-wise
expressions are read per element); `a ** b`, `a >> b`, `a & b` on non-negative int64 without overflow are Z.pow,
Z.shiftr, Z.land; `x or None` is None when x = 0 and x otherwise; a slice bound that is a plain integer expression
e is `Some e`.  Anything outside the subset raises Unsupported and the definition is emitted as `unit`.
"""
import ast
import os

from translate.py2coq import Kernel, Unsupported, find_function, src_of

REPO = os.environ.get('VERIF_REPO', '/repo')


def parse(rel):
    return ast.parse(open(os.path.join(REPO, rel)).read())


class K13(Kernel):
    """Kernel + `**`, `>>`, `&`, np.arange read per element; fail-closed."""

    def __init__(self, func, renames, col=None):
        super().__init__(func, renames)
        self.col = col

    def expr(self, node, params, deps):
        s = src_of(node)
        if s in self.renames:
            return self.renames[s]
        if isinstance(node, ast.BinOp) and isinstance(node.op, ast.Pow):
            return '(%s ^ %s)' % (self.expr(node.left, params, deps), self.expr(node.right, params, deps))
        if isinstance(node, ast.BinOp) and isinstance(node.op, ast.RShift):
            return '(Z.shiftr %s %s)' % (self.expr(node.left, params, deps), self.expr(node.right, params, deps))
        if isinstance(node, ast.BinOp) and isinstance(node.op, ast.BitAnd):
            return '(Z.land %s %s)' % (self.expr(node.left, params, deps), self.expr(node.right, params, deps))
        if isinstance(node, ast.Call) and src_of(node.func) == 'np.arange' and len(node.args) == 1 and not node.keywords:
            # np.arange(k) read at position j (0 <= j < k) is j; the argument must be the length parameter
            if self.col is None or self.col not in params:
                raise Unsupported('np.arange read per element needs the position parameter')
            self.expr(node.args[0], params, deps)          # must itself be translatable (fail closed otherwise)
            return self.col
        return super().expr(node, params, deps)

    def opt_expr(self, node, params, deps):
        """a slice bound: None | e | e or None   ->  option Z"""
        if node is None or (isinstance(node, ast.Constant) and node.value is None):
            return 'None'
        if isinstance(node, ast.BoolOp) and isinstance(node.op, ast.Or) and len(node.values) == 2 \
                and isinstance(node.values[1], ast.Constant) and node.values[1].value is None:
            e = self.expr(node.values[0], params, deps)
            return '(let v := %s in if v =? 0 then None else Some v)' % e
        if isinstance(node, ast.BoolOp):
            raise Unsupported('boolean operator outside the subset: %s' % src_of(node))
        return '(Some %s)' % self.expr(node, params, deps)

    def closed(self, deps, what):
        if deps:
            raise Unsupported('%s reads locals %s' % (what, sorted(set(deps))))


def defn(name, params, ty, body):
    return 'Definition %s %s : %s :=\n  %s.\n' % (name, ' '.join('(%s : Z)' % p for p in params), ty, body)


def trailing_slice_stop(func, base_names):
    """the unique `return <base>[..., :X]` of func; returns the ast node X (None if the bound is absent)"""
    hits = []
    for n in ast.walk(func):
        if isinstance(n, ast.Return) and isinstance(n.value, ast.Subscript):
            sl = n.value.slice
            if isinstance(sl, ast.Tuple) and len(sl.elts) == 2 and isinstance(sl.elts[0], ast.Constant) \
                    and sl.elts[0].value is Ellipsis and isinstance(sl.elts[1], ast.Slice):
                hits.append((n.value.value, sl.elts[1]))
    if len(hits) != 1:
        raise Unsupported('expected exactly one `return x[..., :stop]`, found %d' % len(hits))
    base, sl = hits[0]
    if src_of(base) not in base_names:
        raise Unsupported('trimmed object is %s' % src_of(base))
    if sl.lower is not None or sl.step is not None:
        raise Unsupported('column slice has a lower bound or a step: %s' % src_of(sl))
    return sl.upper


def stop_def(name, tree, qual, base_names, renames):
    f = find_function(tree, qual)
    k = K13(f, renames)
    deps = []
    body = k.opt_expr(trailing_slice_stop(f, base_names), ['window_size'], deps)
    k.closed(deps, name)
    return defn(name, ['window_size'], 'option Z', body)


def attr_assign(func, target_src):
    hits = [n.value for n in ast.walk(func)
            if isinstance(n, ast.Assign) and len(n.targets) == 1 and src_of(n.targets[0]) == target_src]
    if len(hits) != 1:
        raise Unsupported('%s assigned %d times' % (target_src, len(hits)))
    return hits[0]


def dot_weights(call, receiver):
    """`<receiver>.dot(W)` -> W"""
    if not (isinstance(call, ast.Call) and isinstance(call.func, ast.Attribute) and call.func.attr == 'dot'
            and src_of(call.func.value) == receiver and len(call.args) == 1 and not call.keywords):
        raise Unsupported('not %s.dot(weights): %s' % (receiver, src_of(call)))
    return call.args[0]


def gen():
    defs = []

    def emit(name, fn):
        try:
            defs.append(fn())
        except Unsupported as e:
            defs.append('(* NOT TRANSLATED: %s *)\nDefinition %s : unit := tt.\n' % (str(e).replace('*)', '* )'), name))
        except Exception as e:
            defs.append('(* NOT TRANSLATED: %s: %s *)\nDefinition %s : unit := tt.\n' % (type(e).__name__, str(e).replace('*)', '* )'), name))

    def lazy(rel):
        box = {}

        def get():
            if 'tree' not in box:
                box['tree'] = parse(rel)
            return box['tree']
        return get
    t_roll = lazy('bionumpy/sequence/rollable.py')
    t_kmers = lazy('bionumpy/sequence/kmers.py')
    t_pwm = lazy('bionumpy/sequence/position_weight_matrix.py')
    t_util = lazy('bionumpy/util/__init__.py')
    t_kenc = lazy('bionumpy/encodings/kmer_encodings.py')
    t_min = lazy('bionumpy/sequence/minimizers.py')

    # ---- the column slice that drops the last w-1 columns of every row (four sites)
    emit('gen_stop_rollable', lambda: stop_def('gen_stop_rollable', t_roll(), 'RollableFunction.rolling_window', ('out',), {}))
    emit('gen_stop_convolution', lambda: stop_def('gen_stop_convolution', t_kmers(), 'convolution.new_func', ('out',), {}))
    emit('gen_stop_motif', lambda: stop_def('gen_stop_motif', t_pwm(), 'get_motif_scores', ('scores',),
                                            {'pwm.window_size': 'window_size'}))
    emit('gen_stop_util', lambda: stop_def('gen_stop_util', t_util(), 'rolling_window_function.new_func', ('out',), {}))

    # ---- KmerEncoder: weights n ** arange(k), code = data . weights
    ren_enc = {'self._alphabet_size': 'alphabet_size', 'self._k': 'k'}

    def kmer_weight():
        f = find_function(t_kmers(), 'KmerEncoder.__init__')
        if src_of(attr_assign(f, 'self._alphabet_size')) != 'alphabet_encoding.alphabet_size' or src_of(attr_assign(f, 'self._k')) != 'k':
            raise Unsupported('KmerEncoder.__init__ no longer stores alphabet size and k as they are')
        k = K13(f, ren_enc, col='j')
        deps = []
        body = k.expr(attr_assign(f, 'self._convolution'), ['alphabet_size', 'k', 'j'], deps)
        k.closed(deps, 'gen_kmer_weight')
        return defn('gen_kmer_weight', ['alphabet_size', 'k', 'j'], 'Z', body)
    emit('gen_kmer_weight', kmer_weight)

    def kmer_call():
        f = find_function(t_kmers(), 'KmerEncoder.__call__')
        rets = [n for n in ast.walk(f) if isinstance(n, ast.Return)]
        if len(rets) != 1 or not (isinstance(rets[0].value, ast.Call) and src_of(rets[0].value.func) == 'EncodedArray' and rets[0].value.args):
            raise Unsupported('KmerEncoder.__call__ does not return EncodedArray(...)')
        w = dot_weights(rets[0].value.args[0], 'sequence.data')
        if src_of(w) != 'self._convolution':
            raise Unsupported('weights are %s' % src_of(w))
        return 'Definition gen_kmer_call_is_dot : bool := true.\n'
    emit('gen_kmer_call_is_dot', kmer_call)

    # ---- get_kmers: which alphabets take the bit-packed path
    def packed_test():
        f = find_function(t_kmers(), 'get_kmers')
        ifs = [n for n in f.body if isinstance(n, ast.If) and any(isinstance(b, ast.Return) and isinstance(b.value, ast.Call)
                                                                  and src_of(b.value.func) == '_get_dna_kmers' for b in n.body)]
        if len(ifs) != 1 or ifs[0].orelse:
            raise Unsupported('get_kmers: expected one `if <test>: return _get_dna_kmers(...)`')
        last = f.body[-1]
        if not (isinstance(last, ast.Return) and src_of(last.value) == 'KmerEncoder(k, sequence.encoding).rolling_window(sequence)'):
            raise Unsupported('get_kmers: generic path is %s' % src_of(last))
        t = ifs[0].test
        if not (isinstance(t, ast.Compare) and len(t.ops) == 1):
            raise Unsupported('get_kmers: test %s' % src_of(t))
        from translate.py2coq import CMPOPS
        if type(t.ops[0]) not in CMPOPS:
            raise Unsupported('get_kmers: comparison %s' % src_of(t))
        k = K13(f, {'sequence.encoding.alphabet_size': 'alphabet_size'})
        deps = []
        body = '(%s %s %s)' % (k.expr(t.left, ['alphabet_size'], deps), CMPOPS[type(t.ops[0])], k.expr(t.comparators[0], ['alphabet_size'], deps))
        k.closed(deps, 'gen_get_kmers_packed_test')
        return defn('gen_get_kmers_packed_test', ['alphabet_size'], 'bool', body)
    emit('gen_get_kmers_packed_test', packed_test)

    # ---- KmerEncoding.encode: the two dot products
    ren_ke = {'self._alphabet_encoding.alphabet_size': 'alphabet_size', 'self._k': 'k'}

    def encode_weights():
        f = find_function(t_kenc(), 'KmerEncoding.encode')
        calls = [n for n in ast.walk(f) if isinstance(n, ast.Call) and isinstance(n.func, ast.Attribute) and n.func.attr == 'dot']
        if len(calls) != 2:
            raise Unsupported('KmerEncoding.encode has %d dot products' % len(calls))
        calls.sort(key=lambda n: n.lineno)
        out = ''
        for name, c in zip(('gen_encode_weight_str', 'gen_encode_weight_list'), calls):
            k = K13(f, ren_ke, col='j')
            deps = []
            body = k.expr(dot_weights(c, 'letters'), ['alphabet_size', 'k', 'j'], deps)
            k.closed(deps, name)
            out += defn(name, ['alphabet_size', 'k', 'j'], 'Z', body)
        return out
    emit('gen_encode_weight_str', encode_weights)

    # ---- KmerEncoding.to_string: shift/mask digits for |A| = 4, div/mod digits otherwise
    def to_string():
        from translate.py2coq import CMPOPS
        f = find_function(t_kenc(), 'KmerEncoding.to_string')
        ifs = [n for n in f.body if isinstance(n, ast.If) and any(isinstance(b, ast.Assign) and src_of(b.targets[0]) == 'tmp' for b in n.body)]
        if len(ifs) != 1:
            raise Unsupported('to_string: expected one if/else assigning tmp')
        node = ifs[0]
        t = node.test
        if not (isinstance(t, ast.Compare) and len(t.ops) == 1 and type(t.ops[0]) in CMPOPS):
            raise Unsupported('to_string: test %s' % src_of(t))
        k0 = K13(f, ren_ke)
        deps = []
        test = '(%s %s %s)' % (k0.expr(t.left, ['alphabet_size'], deps), CMPOPS[type(t.ops[0])], k0.expr(t.comparators[0], ['alphabet_size'], deps))
        k0.closed(deps, 'gen_to_string_packed_test')
        if len(node.body) != 1:
            raise Unsupported('to_string: packed branch has %d statements' % len(node.body))
        k1 = K13(f, ren_ke, col='j')
        deps = []
        d4 = k1.expr(node.body[0].value, ['kmer', 'k', 'j'], deps)
        k1.closed(deps, 'gen_to_string_digit4')
        # else branch: n = alphabet size; tmp = (kmer // n ** arange(k)) % n
        if len(node.orelse) != 2 or not all(isinstance(b, ast.Assign) and len(b.targets) == 1 for b in node.orelse):
            raise Unsupported('to_string: generic branch is not two assignments')
        a_n, a_tmp = node.orelse
        if src_of(a_n.targets[0]) != 'n' or src_of(a_n.value) != 'self._alphabet_encoding.alphabet_size' or src_of(a_tmp.targets[0]) != 'tmp':
            raise Unsupported('to_string: generic branch assigns %s, %s' % (src_of(a_n), src_of(a_tmp)))
        k2 = K13(f, dict(ren_ke, n='alphabet_size'), col='j')
        deps = []
        dg = k2.expr(a_tmp.value, ['alphabet_size', 'kmer', 'k', 'j'], deps)
        k2.closed(deps, 'gen_to_string_digit')
        # tmp must be what is decoded
        if 'EncodedArray(tmp, self._alphabet_encoding)' not in src_of(f):
            raise Unsupported('to_string: tmp is not decoded with the alphabet encoding')
        return (defn('gen_to_string_packed_test', ['alphabet_size'], 'bool', test)
                + defn('gen_to_string_digit4', ['kmer', 'k', 'j'], 'Z', d4)
                + defn('gen_to_string_digit', ['alphabet_size', 'kmer', 'k', 'j'], 'Z', dg))
    emit('gen_to_string_packed_test', to_string)

    # ---- number of labels of a k-mer encoding (minlength of the bincount in count_kmers)
    def n_labels():
        f = find_function(t_kenc(), 'KmerEncoding.get_labels')
        comps = [n for n in ast.walk(f) if isinstance(n, ast.ListComp)]
        if len(comps) != 1 or len(comps[0].generators) != 1 or comps[0].generators[0].ifs:
            raise Unsupported('get_labels is not one plain list comprehension')
        g = comps[0].generators[0]
        if not (isinstance(g.iter, ast.Call) and src_of(g.iter.func) == 'range' and len(g.iter.args) == 1
                and src_of(comps[0].elt) == 'self.to_string(%s)' % src_of(g.target)):
            raise Unsupported('get_labels: %s' % src_of(comps[0]))
        k = K13(f, ren_ke)
        deps = []
        body = k.expr(g.iter.args[0], ['alphabet_size', 'k'], deps)
        k.closed(deps, 'gen_n_labels')
        return defn('gen_n_labels', ['alphabet_size', 'k'], 'Z', body)
    emit('gen_n_labels', n_labels)

    # ---- minimizers: k-mers per window and the window the outer roller uses
    def minimizers():
        tree = t_min()
        f = find_function(tree, 'get_minimizers')
        calls = [n for n in ast.walk(f) if isinstance(n, ast.Call) and src_of(n.func) == 'Minimizers']
        if len(calls) != 1 or len(calls[0].args) != 2 or src_of(calls[0].args[1]) != 'KmerEncoder(k, sequence.encoding)':
            raise Unsupported('get_minimizers does not build Minimizers(<n>, KmerEncoder(k, sequence.encoding))')
        k = K13(f, {})
        deps = []
        nk = k.expr(calls[0].args[0], ['window_size', 'k'], deps)
        k.closed(deps, 'gen_minimizer_n_kmers')
        g = find_function(tree, 'Minimizers.__init__')
        k2 = K13(g, {'kmer_encoding.window_size': 'kmer_window'})
        deps = []
        w = k2.expr(attr_assign(g, 'self.window_size'), ['n_kmers', 'kmer_window'], deps)
        k2.closed(deps, 'gen_minimizer_window')
        # KmerEncoder.window_size must be k
        if src_of(attr_assign(find_function(t_kmers(), 'KmerEncoder.__init__'), 'self.window_size')) != 'k':
            raise Unsupported('KmerEncoder.window_size is not k')
        return (defn('gen_minimizer_n_kmers', ['window_size', 'k'], 'Z', nk)
                + defn('gen_minimizer_window', ['n_kmers', 'kmer_window'], 'Z', w))
    emit('gen_minimizer_n_kmers', minimizers)

    # ---- PWM.calculate_scores: scores[:size - offset] += row[sequence[offset:]]
    def pwm_acc():
        f = find_function(t_pwm(), 'PWM.calculate_scores')
        loops = [n for n in ast.walk(f) if isinstance(n, ast.For)]
        if len(loops) != 1 or src_of(loops[0].target) != '(offset, row)' and src_of(loops[0].target) != 'offset, row':
            raise Unsupported('calculate_scores: loop header')
        lp = loops[0]
        if src_of(lp.iter) != 'enumerate(m)' or len(lp.body) != 1 or not isinstance(lp.body[0], ast.AugAssign) \
                or not isinstance(lp.body[0].op, ast.Add):
            raise Unsupported('calculate_scores: loop is %s' % src_of(lp))
        if src_of(attr_or_name_assign(f, 'm')) != 'self._matrix.T.copy()' or src_of(attr_or_name_assign(f, 'scores')) != 'np.zeros(sequence.size, dtype=float)':
            raise Unsupported('calculate_scores: m / scores initialisation changed')
        tgt, val = lp.body[0].target, lp.body[0].value
        if not (isinstance(tgt, ast.Subscript) and src_of(tgt.value) == 'scores' and isinstance(tgt.slice, ast.Slice)
                and tgt.slice.lower is None and tgt.slice.step is None and tgt.slice.upper is not None):
            raise Unsupported('calculate_scores: target %s' % src_of(tgt))
        # value: row[sequence[L:].raw()]
        if not (isinstance(val, ast.Subscript) and src_of(val.value) == 'row' and isinstance(val.slice, ast.Call)
                and isinstance(val.slice.func, ast.Attribute) and val.slice.func.attr == 'raw' and not val.slice.args
                and isinstance(val.slice.func.value, ast.Subscript) and src_of(val.slice.func.value.value) == 'sequence'
                and isinstance(val.slice.func.value.slice, ast.Slice) and val.slice.func.value.slice.upper is None
                and val.slice.func.value.slice.step is None and val.slice.func.value.slice.lower is not None):
            raise Unsupported('calculate_scores: value %s' % src_of(val))
        k = K13(f, {'scores.size': 'size'})
        deps = []
        up = k.expr(tgt.slice.upper, ['size', 'offset'], deps)
        lo = k.expr(val.slice.func.value.slice.lower, ['size', 'offset'], deps)
        k.closed(deps, 'gen_pwm_acc_stop')
        return defn('gen_pwm_acc_stop', ['size', 'offset'], 'Z', up) + defn('gen_pwm_seq_start', ['size', 'offset'], 'Z', lo)

    def attr_or_name_assign(func, name):
        return attr_assign(func, name)
    emit('gen_pwm_acc_stop', pwm_acc)

    rel = ('bionumpy/sequence/{rollable,kmers,minimizers,position_weight_matrix}.py, bionumpy/encodings/kmer_encodings.py, '
           'bionumpy/util/__init__.py')
    return rel, defs

"""gen_c03 — regenerates coq/theories/Gen/C03.v from the writers anchored by property C03.

Kernels (source function -> generated definitions):
  io/multiline_buffer.py  MultiLineFastaBuffer.from_data   gen_fasta_n_lines, gen_fasta_last_length, gen_fasta_total,
                                                           gen_fasta_fill, gen_fasta_entry_step, gen_fasta_first_start,
                                                           gen_fasta_has_lines, gen_fasta_last_index, gen_fasta_last_value,
                                                           gen_fasta_hdr_index, gen_fasta_hdr_value, gen_fasta_body_len,
                                                           gen_fasta_assign_order
  io/dump_csv.py          join_columns                     gen_join_cell_len, gen_join_stride_start, gen_join_stride_step,
                                                           gen_join_nl_start, gen_join_nl_step, gen_join_newline
  io/delimited_buffers.py DelimitedBuffer.DELIMITER        gen_delimiter
  io/one_line_buffer.py   OneLineBuffer.join_fields        gen_olb_line_len, gen_olb_stride_step, gen_olb_body_start,
                                                           gen_olb_hdr_row_start, gen_olb_hdr_col, gen_olb_newline
  io/fastq_buffer.py      FastQBuffer (class constants),   gen_fastq_offsets, gen_fastq_n_lines, gen_fastq_header,
                          FastQBuffer.join_fields          gen_fastq_plus, gen_fastq_plus_position
  io/vcf_buffers.py       VCFBuffer.from_data,             gen_vcf_pos_eager,
                          VCFBuffer.process_field_for_write gen_vcf_pos_lazy, gen_vcf_pos_field
  io/parser.py            NpBufferedWriter.write           gen_write_emits_header, gen_stream_skips_empty
  io/files.py             _get_buffered_file,              gen_append_flag_a, gen_append_flag_w
  io/parser.py            NpBufferedWriter.__init__
  io/buffers/sam.py       SAMBuffer.from_data,             gen_sam_from_data_joins_fields,
                          SAMBuffer.join_fields            gen_sam_tags_start, gen_sam_tags_step, gen_sam_no_tags, gen_sam_cell_end,
                                                           gen_sam_drop_index

Reading conventions (trusted, stated in notes/C03.md): an element-wise NumPy expression over equally shaped arrays is
read per element; `x[:, np.newaxis]`, `x[:, None]` do not change the element; `a[mask]` / `a[1:]` / `a[:-1]` are read
as "an element of that selection" only through an explicit rename of exactly that source text (so changing the
selection un-matches the rename and the kernel fails closed); `a > b` is emitted as `b <? a`; a one-character string
constant is its byte; `hasattr(...)`, `self._append`, `self._header_written` are boolean parameters of the header
condition; nested `if c1: if c2:` is `c1 && c2`.  Anything else raises Unsupported (definition emitted as `unit`).
"""
import ast
import os

from translate.py2coq import Kernel, Unsupported, find_function, src_of, CMPOPS

REPO = os.environ.get('VERIF_REPO', '/repo')

PRELUDE = '''From Coq Require Import List Bool.
Import ListNotations.
Open Scope Z_scope.
'''


def _parse(rel):
    return ast.parse(open(os.path.join(REPO, rel)).read())


def _emit(defs, name, fn):
    try:
        defs.append(fn())
    except Unsupported as e:
        defs.append('(* NOT TRANSLATED: %s *)\nDefinition %s : unit := tt.\n' % (str(e).replace('*)', '* )'), name))
    except Exception as e:      # vanished function, syntax error, changed shape: fail closed
        defs.append('(* NOT TRANSLATED: %s: %s *)\nDefinition %s : unit := tt.\n' % (
            type(e).__name__, str(e).replace('*)', '* )'), name))


def _one(nodes, what):
    nodes = list(nodes)
    if len(nodes) != 1:
        raise Unsupported('expected exactly one %s, found %d' % (what, len(nodes)))
    return nodes[0]


def _stmts(func, kind):
    return [n for n in ast.walk(func) if isinstance(n, kind)]


def _assign_to(func, target_src, kind=ast.Assign):
    """the unique (Aug)Assign statement whose single target has exactly this source text"""
    def tgt(n):
        return n.targets[0] if isinstance(n, ast.Assign) and len(n.targets) == 1 else (n.target if isinstance(n, ast.AugAssign) else None)
    return _one([n for n in _stmts(func, kind) if tgt(n) is not None and src_of(tgt(n)) == target_src],
                'assignment to ' + target_src)


def _call(func, callee_src):
    return _one([n for n in ast.walk(func) if isinstance(n, ast.Call) and src_of(n.func) == callee_src], 'call of ' + callee_src)


def _char(node, what):
    if isinstance(node, ast.Constant) and isinstance(node.value, str) and len(node.value) == 1 and ord(node.value) < 128:
        return ord(node.value)
    raise Unsupported('%s is not a one-character string constant: %s' % (what, src_of(node)))


def _int_const(node, what):
    if isinstance(node, ast.Constant) and isinstance(node.value, int) and not isinstance(node.value, bool):
        return node.value
    if isinstance(node, ast.UnaryOp) and isinstance(node.op, ast.USub) and isinstance(node.operand, ast.Constant) \
            and isinstance(node.operand.value, int):
        return -node.operand.value
    raise Unsupported('%s is not an integer constant: %s' % (what, src_of(node)))


def _class_const(tree, cls, name):
    c = _one([n for n in tree.body if isinstance(n, ast.ClassDef) and n.name == cls], 'class ' + cls)
    a = _one([n for n in c.body if isinstance(n, ast.Assign) and len(n.targets) == 1 and src_of(n.targets[0]) == name],
             '%s.%s' % (cls, name))
    return a.value


class K03(Kernel):
    """Kernel + node-level renames, subscripts that keep the element, boolean conditions.  Fail-closed."""

    def __init__(self, func, renames, node_renames=None, bools=()):
        super().__init__(func, renames)
        self.node_renames = dict(node_renames or {})     # id(ast node) -> Coq name
        self.bools = set(bools)

    def expr(self, node, params, deps):
        if id(node) in self.node_renames:
            return self.node_renames[id(node)]
        s = src_of(node)
        if s in self.renames:
            return self.renames[s]
        if isinstance(node, ast.Name) and node.id in self.bools:
            raise Unsupported('boolean %s used as a number' % node.id)
        if isinstance(node, ast.Subscript) and src_of(node.slice) in (':, np.newaxis', '(:, np.newaxis)', ':, None', '(:, None)'):
            return self.expr(node.value, params, deps)
        return super().expr(node, params, deps)

    def cond(self, node, params, deps):
        s = src_of(node)
        if s in self.renames and self.renames[s] in self.bools:
            return self.renames[s]
        if isinstance(node, ast.Name) and node.id in self.bools:
            return node.id
        if isinstance(node, ast.UnaryOp) and isinstance(node.op, ast.Not):
            return '(negb %s)' % self.cond(node.operand, params, deps)
        if isinstance(node, ast.BoolOp) and isinstance(node.op, (ast.And, ast.Or)):
            op = ' && ' if isinstance(node.op, ast.And) else ' || '
            parts = [self.cond(v, params, deps) for v in node.values]
            out = parts[0]
            for p in parts[1:]:
                out = '(%s%s%s)' % (out, op, p)
            return out
        if isinstance(node, ast.Compare) and len(node.ops) == 1:
            a = self.expr(node.left, params, deps)
            b = self.expr(node.comparators[0], params, deps)
            t = type(node.ops[0])
            if t is ast.Gt:
                return '(%s <? %s)' % (b, a)
            if t is ast.GtE:
                return '(%s <=? %s)' % (b, a)
            if t in (ast.Lt, ast.LtE, ast.Eq):
                return '(%s %s %s)' % (a, CMPOPS[t], b)
        raise Unsupported('condition outside the subset: %s' % s)

    def define_bool(self, coq_name, zparams, bparams, node):
        deps = []
        body = self.cond(node, list(zparams) + list(bparams), deps)
        if deps:
            # boolean kernels are closed over their parameters: no let-chain slicing through booleans
            for d in deps:
                if d not in zparams:
                    raise Unsupported('%s: condition reads local %r' % (coq_name, d))
        ps = ' '.join(['(%s : Z)' % p for p in zparams] + ['(%s : bool)' % p for p in bparams])
        return 'Definition %s %s : bool :=\n  %s.\n' % (coq_name, ps, body)


def _zdef(name, value):
    return 'Definition %s : Z := %s.\n' % (name, value if value >= 0 else '(%d)' % value)


def _slice_parts(sub, what):
    """lines[a::b, c] -> (row slice node, column node)"""
    sl = sub.slice
    if not (isinstance(sl, ast.Tuple) and len(sl.elts) == 2):
        raise Unsupported('%s is not indexed [rows, cols]: %s' % (what, src_of(sub)))
    return sl.elts[0], sl.elts[1]


# ----------------------------------------------------------------------------------------------------------------
def gen():
    defs = [PRELUDE]

    # ================= multiline_buffer.MultiLineFastaBuffer.from_data =================
    rel_fa = 'bionumpy/io/multiline_buffer.py'
    t_fa = _parse(rel_fa)
    ffa = lambda: find_function(t_fa, 'MultiLineFastaBuffer.from_data')
    REN = {'sequence_lengths': 'L', 'cls.n_characters_per_line': 'w', 'entries.sequence.lengths': 'L'}

    def kfa(extra=None, node_renames=None):
        r = dict(REN)
        r.update(extra or {})
        return K03(ffa(), r, node_renames)
    _emit(defs, 'gen_fasta_n_lines', lambda: kfa().define('gen_fasta_n_lines', ['L', 'w'], 'n_lines'))
    _emit(defs, 'gen_fasta_last_length', lambda: kfa().define('gen_fasta_last_length', ['L', 'w'], 'last_length'))

    def full_call():
        a = _assign_to(ffa(), 'line_lengths')
        c = a.value
        if not (isinstance(c, ast.Call) and src_of(c.func) == 'np.full' and len(c.args) == 2):
            raise Unsupported('line_lengths is not np.full(count, fill, ...): %s' % src_of(c))
        return c
    _emit(defs, 'gen_fasta_total', lambda: kfa({'np.sum(n_lines)': 'sum_n', 'n_lines.size': 'count'}).define(
        'gen_fasta_total', ['sum_n', 'count'], full_call().args[0]))
    _emit(defs, 'gen_fasta_fill', lambda: kfa().define('gen_fasta_fill', ['w'], full_call().args[1]))

    def starts_call():
        a = _assign_to(ffa(), 'entry_starts')
        c = a.value
        if not (isinstance(c, ast.Call) and src_of(c.func) == 'np.insert' and len(c.args) == 3 and not c.keywords
                and isinstance(c.args[0], ast.Call) and src_of(c.args[0].func) == 'np.cumsum' and len(c.args[0].args) == 1
                and not c.args[0].keywords and _int_const(c.args[1], 'insert position') == 0):
            raise Unsupported('entry_starts is not np.insert(np.cumsum(<step>), 0, <first>): %s' % src_of(c))
        return c
    _emit(defs, 'gen_fasta_entry_step', lambda: kfa({'n_lines': 'n'}).define('gen_fasta_entry_step', ['n'], starts_call().args[0].args[0]))
    _emit(defs, 'gen_fasta_first_start', lambda: _zdef('gen_fasta_first_start', _int_const(starts_call().args[2], 'first entry start')))
    _emit(defs, 'gen_fasta_has_lines', lambda: kfa({'n_lines': 'n'}).define_bool(
        'gen_fasta_has_lines', ['n'], [], _assign_to(ffa(), 'has_lines').value))

    LAST_T = 'line_lengths[entry_starts[1:][has_lines] - 1]'
    HDR_T = 'line_lengths[entry_starts[:-1]]'
    _emit(defs, 'gen_fasta_last_index', lambda: kfa({'entry_starts[1:][has_lines]': 's'}).define(
        'gen_fasta_last_index', ['s'], _assign_to(ffa(), LAST_T).targets[0].slice))
    _emit(defs, 'gen_fasta_last_value', lambda: kfa({'last_length[has_lines]': 'last'}).define(
        'gen_fasta_last_value', ['last'], _assign_to(ffa(), LAST_T).value))
    _emit(defs, 'gen_fasta_hdr_index', lambda: kfa({'entry_starts[:-1]': 's'}).define(
        'gen_fasta_hdr_index', ['s'], _assign_to(ffa(), HDR_T).targets[0].slice))
    _emit(defs, 'gen_fasta_hdr_value', lambda: kfa({'name_lengths': 'name_len'}).define(
        'gen_fasta_hdr_value', ['name_len'], _assign_to(ffa(), HDR_T).value))

    def order():
        a, b = _assign_to(ffa(), LAST_T), _assign_to(ffa(), HDR_T)
        f = ffa()
        if a not in f.body or b not in f.body:
            raise Unsupported('line length assignments are not top-level statements of from_data')
        first = 'last_then_header' if f.body.index(a) < f.body.index(b) else 'header_then_last'
        return 'Definition gen_fasta_assign_order : bool := %s. (* true = last-line lengths are stored before header-line lengths *)\n' % (
            'true' if first == 'last_then_header' else 'false')
    _emit(defs, 'gen_fasta_assign_order', order)

    def body_len():
        a = _assign_to(ffa(), 'lines[idxs, :-1]')
        c = a.value
        if not (isinstance(c, ast.Call) and src_of(c.func) == 'EncodedRaggedArray' and len(c.args) == 2):
            raise Unsupported('sequence lines are not filled from EncodedRaggedArray(data, lengths): %s' % src_of(c))
        return kfa({'line_lengths[idxs]': 'll'}).define('gen_fasta_body_len', ['ll'], c.args[1])
    _emit(defs, 'gen_fasta_body_len', body_len)

    # ================= dump_csv.join_columns =================
    t_csv = _parse('bionumpy/io/dump_csv.py')
    fjc = lambda: find_function(t_csv, 'join_columns')

    def cell_len():
        f = fjc()
        comps = [n for n in ast.walk(f) if isinstance(n, ast.ListComp)]
        c = _one(comps, 'list comprehension in join_columns')
        e = c.elt
        if not (isinstance(e, ast.Subscript) and src_of(e.slice) in (':, np.newaxis', '(:, np.newaxis)')
                and isinstance(e.value, ast.BinOp) and isinstance(e.value.left, ast.IfExp)
                and src_of(e.value.left.body) == 'column.lengths'):
            raise Unsupported('lengths are not ((column.lengths if ragged else ...) <op> k)[:, np.newaxis]: %s' % src_of(e))
        k = K03(f, {}, {id(e.value.left): 'clen'})
        return k.define('gen_join_cell_len', ['clen'], e)
    _emit(defs, 'gen_join_cell_len', cell_len)

    def scatter_target():
        a = _one([n for n in _stmts(fjc(), ast.Assign) if len(n.targets) == 1 and isinstance(n.targets[0], ast.Subscript)
                  and src_of(n.targets[0].value) == 'lines' and src_of(n.value) == 'column'], 'lines[...] = column')
        rows, cols = _slice_parts(a.targets[0], 'scatter target')
        if not (isinstance(rows, ast.Slice) and rows.upper is None and rows.lower is not None and rows.step is not None
                and src_of(cols) == ':-1'):
            raise Unsupported('scatter target is not lines[start::step, :-1]: %s' % src_of(a.targets[0]))
        return rows
    _emit(defs, 'gen_join_stride_start', lambda: K03(fjc(), {}).define('gen_join_stride_start', ['i', 'n_columns'], scatter_target().lower))
    _emit(defs, 'gen_join_stride_step', lambda: K03(fjc(), {'len(columns)': 'n_columns'}).define(
        'gen_join_stride_step', ['i', 'n_columns'], scatter_target().step))

    def nl_target():
        cands = [n for n in _stmts(fjc(), ast.Assign) if len(n.targets) == 1 and isinstance(n.targets[0], ast.Subscript)
                 and src_of(n.targets[0].value) == 'lines' and isinstance(n.value, ast.Constant) and isinstance(n.value.value, str)]
        a = _one(cands, 'lines[...] = <string constant>')
        rows, cols = _slice_parts(a.targets[0], 'newline target')
        if not (isinstance(rows, ast.Slice) and rows.upper is None and rows.lower is not None and rows.step is not None
                and _int_const(cols, 'newline column') == -1):
            raise Unsupported('newline target is not lines[start::step, -1]: %s' % src_of(a.targets[0]))
        # it must come after `lines[:, -1] = sep`, which it overwrites
        sep = _assign_to(fjc(), 'lines[:, -1]')
        if src_of(sep.value) != 'sep' or sep.lineno > a.lineno:
            raise Unsupported('`lines[:, -1] = sep` does not precede the newline assignment')
        return a, rows
    _emit(defs, 'gen_join_nl_start', lambda: K03(fjc(), {'len(columns)': 'n_columns'}).define(
        'gen_join_nl_start', ['n_columns'], nl_target()[1].lower))
    _emit(defs, 'gen_join_nl_step', lambda: K03(fjc(), {'len(columns)': 'n_columns'}).define(
        'gen_join_nl_step', ['n_columns'], nl_target()[1].step))
    _emit(defs, 'gen_join_newline', lambda: _zdef('gen_join_newline', _char(nl_target()[0].value, 'newline')))

    t_del = _parse('bionumpy/io/delimited_buffers.py')
    _emit(defs, 'gen_delimiter', lambda: _zdef('gen_delimiter', _char(_class_const(t_del, 'DelimitedBuffer', 'DELIMITER'), 'DELIMITER')))

    # ================= one_line_buffer.OneLineBuffer.join_fields =================
    t_olb = _parse('bionumpy/io/one_line_buffer.py')
    fjf = lambda: find_function(t_olb, 'OneLineBuffer.join_fields')

    def olb_line_len():
        f = fjf()
        base = _assign_to(f, 'line_lengths')
        aug = _assign_to(f, 'line_lengths[:, i]', ast.AugAssign)
        if not isinstance(aug.op, ast.Add):
            raise Unsupported('line offsets are not added')
        # the loop must run over every field: for i in range(len(fields))
        loop = _one([n for n in _stmts(f, ast.For) if aug in n.body], 'loop around the offset update')
        if not (src_of(loop.iter) == 'range(len(fields))' and src_of(loop.target) == 'i'):
            raise Unsupported('offset loop is not `for i in range(len(fields))`')
        k = K03(f, {'field_lengths': 'flen', 'cls._line_offsets[i]': 'off'})
        d1, d2 = [], []
        a = k.expr(base.value, ['flen', 'off'], d1)
        b = k.expr(aug.value, ['flen', 'off'], d2)
        if d1 or d2:
            raise Unsupported('line length reads locals %s' % (d1 + d2))
        return 'Definition gen_olb_line_len (flen : Z) (off : Z) : Z :=\n  (%s + %s).\n' % (a, b)
    _emit(defs, 'gen_olb_line_len', olb_line_len)

    def olb_scatter():
        f = fjf()
        a = _one([n for n in _stmts(f, ast.Assign) if len(n.targets) == 1 and isinstance(n.targets[0], ast.Subscript)
                  and src_of(n.targets[0].value) == 'lines' and src_of(n.value) == 'field'], 'lines[...] = field')
        rows, cols = _slice_parts(a.targets[0], 'field scatter target')
        if not (isinstance(rows, ast.Slice) and rows.upper is None and src_of(rows.lower) == 'i' and rows.step is not None
                and isinstance(cols, ast.Slice) and cols.step is None and cols.lower is not None
                and _int_const(cols.upper, 'field body end') == -1):
            raise Unsupported('field scatter is not lines[i::step, off:-1]: %s' % src_of(a.targets[0]))
        return rows, cols
    _emit(defs, 'gen_olb_stride_step', lambda: K03(fjf(), {'cls.n_lines_per_entry': 'n_lines'}).define(
        'gen_olb_stride_step', ['n_lines'], olb_scatter()[0].step))
    _emit(defs, 'gen_olb_body_start', lambda: K03(fjf(), {'cls._line_offsets[i]': 'off'}).define(
        'gen_olb_body_start', ['off'], olb_scatter()[1].lower))

    def olb_header():
        f = fjf()
        a = _one([n for n in _stmts(f, ast.Assign) if len(n.targets) == 1 and isinstance(n.targets[0], ast.Subscript)
                  and src_of(n.targets[0].value) == 'lines' and src_of(n.value) == 'cls.HEADER'], 'lines[...] = cls.HEADER')
        rows, cols = _slice_parts(a.targets[0], 'header marker target')
        if not (isinstance(rows, ast.Slice) and rows.upper is None and src_of(rows.step) == 'step'):
            raise Unsupported('header marker rows are not start::step: %s' % src_of(a.targets[0]))
        return _int_const(rows.lower, 'header row start'), _int_const(cols, 'header column')
    _emit(defs, 'gen_olb_hdr_row_start', lambda: _zdef('gen_olb_hdr_row_start', olb_header()[0]))
    _emit(defs, 'gen_olb_hdr_col', lambda: _zdef('gen_olb_hdr_col', olb_header()[1]))
    _emit(defs, 'gen_olb_newline', lambda: _zdef('gen_olb_newline', _char(_assign_to(fjf(), 'lines[:, -1]').value, 'line end')))

    # ================= fastq_buffer.FastQBuffer =================
    t_fq = _parse('bionumpy/io/fastq_buffer.py')

    def fq_offsets():
        v = _class_const(t_fq, 'FastQBuffer', '_line_offsets')
        if not isinstance(v, (ast.Tuple, ast.List)):
            raise Unsupported('_line_offsets is not a tuple')
        vals = [_int_const(e, 'line offset') for e in v.elts]
        if any(x < 0 for x in vals):
            raise Unsupported('negative line offset')
        return 'Definition gen_fastq_offsets : list Z := [%s].\n' % '; '.join(str(x) for x in vals)
    _emit(defs, 'gen_fastq_offsets', fq_offsets)
    _emit(defs, 'gen_fastq_n_lines', lambda: _zdef('gen_fastq_n_lines', _int_const(_class_const(t_fq, 'FastQBuffer', 'n_lines_per_entry'), 'n_lines_per_entry')))
    _emit(defs, 'gen_fastq_header', lambda: _zdef('gen_fastq_header', _char(_class_const(t_fq, 'FastQBuffer', 'HEADER'), 'HEADER')))
    ffq = lambda: find_function(t_fq, 'FastQBuffer.join_fields')

    def fq_plus():
        a = _assign_to(ffq(), 'plus_line')
        c = a.value
        if not (isinstance(c, ast.Call) and src_of(c.func) == 'as_encoded_array' and len(c.args) == 1
                and isinstance(c.args[0], ast.BinOp) and isinstance(c.args[0].op, ast.Mult)
                and isinstance(c.args[0].left, ast.List) and len(c.args[0].left.elts) == 1
                and src_of(c.args[0].right) == 'len(fields[0])'):
            raise Unsupported("plus_line is not as_encoded_array([<char>] * len(fields[0])): %s" % src_of(c))
        return _zdef('gen_fastq_plus', _char(c.args[0].left.elts[0], 'plus line'))
    _emit(defs, 'gen_fastq_plus', fq_plus)

    def fq_plus_pos():
        f = ffq()
        r = _one(_stmts(f, ast.Return), 'return in FastQBuffer.join_fields').value
        if not (isinstance(r, ast.Call) and src_of(r.func) == 'super().join_fields' and len(r.args) == 1):
            raise Unsupported('join_fields does not return super().join_fields(<list>)')
        e = r.args[0]
        # fields[:k] + [plus_line] + fields[k:]
        if not (isinstance(e, ast.BinOp) and isinstance(e.op, ast.Add) and isinstance(e.left, ast.BinOp) and isinstance(e.left.op, ast.Add)
                and src_of(e.left.right) == '[plus_line]'
                and isinstance(e.left.left, ast.Subscript) and src_of(e.left.left.value) == 'fields'
                and isinstance(e.left.left.slice, ast.Slice) and e.left.left.slice.lower is None and e.left.left.slice.step is None
                and isinstance(e.right, ast.Subscript) and src_of(e.right.value) == 'fields'
                and isinstance(e.right.slice, ast.Slice) and e.right.slice.upper is None and e.right.slice.step is None):
            raise Unsupported('fields are not fields[:k] + [plus_line] + fields[k:]: %s' % src_of(e))
        k1 = _int_const(e.left.left.slice.upper, 'plus position')
        k2 = _int_const(e.right.slice.lower, 'plus position')
        if k1 != k2 or k1 < 0:
            raise Unsupported('fields[:%d] + [plus_line] + fields[%d:] drops or repeats a field' % (k1, k2))
        return _zdef('gen_fastq_plus_position', k1)
    _emit(defs, 'gen_fastq_plus_position', fq_plus_pos)

    # ================= vcf_buffers.VCFBuffer =================
    t_vcf = _parse('bionumpy/io/vcf_buffers.py')

    def vcf_eager():
        f = find_function(t_vcf, 'VCFBuffer.from_data')
        c = _call(f, 'dataclasses.replace')
        kw = _one([k for k in c.keywords if k.arg == 'position'], 'position= keyword')
        if not (len(c.args) == 1 and src_of(c.args[0]) == 'data' and len(c.keywords) == 1):
            raise Unsupported('from_data does not replace exactly the position of data')
        rets = _stmts(f, ast.Return)
        if len(rets) == 1:
            # form before /repo 1078c5e: the replaced table goes to DelimitedBuffer.from_data
            if src_of(rets[0].value) != 'super().from_data(data)':
                raise Unsupported('from_data does not hand the replaced table to super().from_data')
        else:
            # repaired form (1078c5e): DelimitedBuffer.from_data inlined - lazy tables are materialised first, the
            # columns of the REPLACED table are listed in field order, a lazily parsed info object becomes its text,
            # and the list goes to dump_csv.  Every statement is checked literally (fail closed).
            want = ['if isinstance(data, LazyBNPDataClass):\n    return cls.from_data(data.get_data_object())',
                    None,
                    'data_dict = [(field.type, getattr(data, field.name)) for field in dataclasses.fields(data)]',
                    'data_dict = [(str, InfoBuffer.as_text(value)) if isinstance(value, LazyBNPDataClass) else (field_type, value) for field_type, value in data_dict]',
                    'return dump_csv(data_dict, cls.DELIMITER)']
            body = [b for b in f.body if not (isinstance(b, ast.Expr) and isinstance(b.value, ast.Constant))]
            if len(body) != len(want):
                raise Unsupported('VCFBuffer.from_data has %d statements, expected %d' % (len(body), len(want)))
            for st, w in zip(body, want):
                if w is not None and ast.unparse(st) != w:
                    raise Unsupported('VCFBuffer.from_data statement changed: %s' % ast.unparse(st))
            if not (isinstance(body[1], ast.Assign) and src_of(body[1].targets[0]) == 'data' and body[1].value is c):
                raise Unsupported('the table handed on is not the one with the replaced position')
        return K03(f, {'data.position': 'p'}).define('gen_vcf_pos_eager', ['p'], kw.value)
    _emit(defs, 'gen_vcf_pos_eager', vcf_eager)

    def vcf_lazy_if():
        f = find_function(t_vcf, 'VCFBuffer.process_field_for_write')
        i = _one([n for n in f.body if isinstance(n, ast.If)], 'if in process_field_for_write')
        t = i.test
        if not (isinstance(t, ast.Compare) and len(t.ops) == 1 and isinstance(t.ops[0], ast.Eq) and src_of(t.left) == 'field_name'
                and isinstance(t.comparators[0], ast.Constant) and isinstance(t.comparators[0].value, str)
                and len(i.body) == 1 and isinstance(i.body[0], ast.Return) and not i.orelse):
            raise Unsupported('process_field_for_write is not `if field_name == <name>: return <expr>`')
        return f, t.comparators[0].value, i.body[0].value
    _emit(defs, 'gen_vcf_pos_lazy', lambda: K03(vcf_lazy_if()[0], {}).define('gen_vcf_pos_lazy', ['value'], vcf_lazy_if()[2]))
    _emit(defs, 'gen_vcf_pos_field', lambda: 'Definition gen_vcf_pos_field : string := "%s"%%string.\n' % vcf_lazy_if()[1]
          if vcf_lazy_if()[1].isidentifier() else _raise(Unsupported('field name is not an identifier')))

    # ================= parser.NpBufferedWriter.write / files._get_buffered_file =================
    t_par = _parse('bionumpy/io/parser.py')
    fwr = lambda: find_function(t_par, 'NpBufferedWriter.write')
    HAS = "hasattr(self._buffer_type, 'make_header')"

    def header_cond():
        f = fwr()
        outer = _one([n for n in f.body if isinstance(n, ast.If) and HAS in src_of(n.test)], 'header if-statement')
        if outer.orelse or len(outer.body) != 1 or not isinstance(outer.body[0], ast.If) or outer.body[0].orelse:
            raise Unsupported('header logic is not `if c1: if c2: <emit>`')
        inner = outer.body[0]
        body_src = [src_of(s) for s in inner.body]
        if not (len(inner.body) == 3 and body_src[0] == 'header_array = self._buffer_type.make_header(data)'
                and body_src[1] == 'self._file_obj.write(header_array)' and body_src[2] == 'self._header_written = True'):
            raise Unsupported('header emission body changed: %s' % body_src)
        # the header comes before the early return for an empty table and before the data
        ret = _one([n for n in f.body if isinstance(n, ast.If) and src_of(n.test) == 'len(data) == 0'], '`if len(data) == 0` early return')
        if not (len(ret.body) == 1 and isinstance(ret.body[0], ast.Return) and ret.body[0].value is None):
            raise Unsupported('empty-table branch is not a bare return')
        if not f.body.index(outer) < f.body.index(ret):
            raise Unsupported('header logic does not precede the empty-table return')
        k = K03(f, {HAS: 'has_make_header', 'self._append': 'append', 'self._header_written': 'header_written'},
                bools=['has_make_header', 'append', 'header_written'])
        d = []
        c = '(%s && %s)' % (k.cond(outer.test, [], d), k.cond(inner.test, [], d))
        if d:
            raise Unsupported('header condition reads locals %s' % d)
        return ('Definition gen_write_emits_header (has_make_header : bool) (append : bool) (header_written : bool) : bool :=\n  %s.\n' % c)
    _emit(defs, 'gen_write_emits_header', header_cond)

    def stream_loop():
        f = fwr()
        i = _one([n for n in f.body if isinstance(n, ast.If) and src_of(n.test) == 'isinstance(data, BnpStream)'], 'BnpStream branch')
        if not (len(i.body) == 2 and isinstance(i.body[0], ast.For) and isinstance(i.body[1], ast.Return) and i.body[1].value is None
                and src_of(i.body[0].target) == 'buf' and src_of(i.body[0].iter) == 'data' and len(i.body[0].body) == 1):
            raise Unsupported('stream branch is not `for buf in data: ...; return`')
        st = i.body[0].body[0]
        if isinstance(st, ast.Expr) and src_of(st.value) == 'self.write(buf)':
            return 'Definition gen_stream_skips_empty : bool := false.\n'
        if isinstance(st, ast.If) and src_of(st.test) == 'len(buf) > 0' and not st.orelse and len(st.body) == 1 \
                and isinstance(st.body[0], ast.Expr) and src_of(st.body[0].value) == 'self.write(buf)':
            return 'Definition gen_stream_skips_empty : bool := true.\n'
        raise Unsupported('stream loop body is neither self.write(buf) nor `if len(buf) > 0: self.write(buf)`: %s' % src_of(st))
    _emit(defs, 'gen_stream_skips_empty', stream_loop)

    t_files = _parse('bionumpy/io/files.py')

    def append_flags():
        f = find_function(t_files, '_get_buffered_file')
        rets = {}
        for n in ast.walk(f):
            if isinstance(n, ast.If) and isinstance(n.test, ast.Compare) and src_of(n.test.left) == 'mode' and len(n.body) == 1 \
                    and isinstance(n.body[0], ast.Return) and isinstance(n.body[0].value, ast.Call) \
                    and src_of(n.body[0].value.func) == 'writer_class':
                modes = src_of(n.test.comparators[0])
                rets["'a'" in modes and 'a' or ("'w'" in modes and 'w' or modes)] = n.body[0].value
        if set(rets) != {'a', 'w'}:
            raise Unsupported('writer branches for modes w / a not found: %s' % sorted(rets))
        out = {}
        for m, c in rets.items():
            if not (len(c.args) == 2 and isinstance(c.args[0], ast.Call) and src_of(c.args[0].func) == 'open_func'
                    and len(c.args[0].args) == 2 and isinstance(c.args[0].args[1], ast.Constant)):
                raise Unsupported('writer for mode %s is not writer_class(open_func(filename, <mode>), buffer_type, ...)' % m)
            fmode = c.args[0].args[1].value
            kws = {k.arg: k.value for k in c.keywords}
            if set(kws) - {'append'}:
                raise Unsupported('unknown keyword for the writer: %s' % sorted(kws))
            if 'append' in kws:
                if not (isinstance(kws['append'], ast.Constant) and isinstance(kws['append'].value, bool)):
                    raise Unsupported('append= is not a boolean constant')
                out[m] = kws['append'].value
            else:
                # default in NpBufferedWriter.__init__: append = getattr(file_obj, 'mode', None) == 'ab'
                init = find_function(t_par, 'NpBufferedWriter.__init__')
                dflt = _one([a for a in init.args.args if a.arg == 'append'], 'append parameter')
                i = _one([n for n in init.body if isinstance(n, ast.If) and src_of(n.test) == 'append is None'], '`if append is None`')
                if not (len(i.body) == 1 and src_of(i.body[0]) == "append = getattr(file_obj, 'mode', None) == 'ab'" and not i.orelse):
                    raise Unsupported('default of append changed: %s' % src_of(i))
                if fmode not in ('wb', 'ab'):
                    raise Unsupported('unexpected open mode %r' % fmode)
                out[m] = (fmode == 'ab')      # a plain file reports its mode; 'wb' != 'ab'.  (GzipFile reports an int: also != 'ab')
            if (m == 'a') != (fmode == 'ab') or (m == 'w') != (fmode == 'wb'):
                raise Unsupported('mode %s opens the file with %r' % (m, fmode))
        init = find_function(t_par, 'NpBufferedWriter.__init__')
        if 'self._append = append' not in [src_of(s) for s in init.body]:
            raise Unsupported('__init__ does not store append in self._append')
        return ('Definition gen_append_flag_a : bool := %s.\nDefinition gen_append_flag_w : bool := %s.\n' % (
            'true' if out['a'] else 'false', 'true' if out['w'] else 'false'))
    _emit(defs, 'gen_append_flag_a', append_flags)

    # ================= buffers/sam.SAMBuffer.from_data / join_fields =================
    t_sam = _parse('bionumpy/io/buffers/sam.py')
    fsj = lambda: find_function(t_sam, 'SAMBuffer.join_fields')

    def sam_from_data():
        f = find_function(t_sam, 'SAMBuffer.from_data')
        rets = [n for n in f.body if isinstance(n, ast.Return)]
        r = _one(rets, 'top-level return in SAMBuffer.from_data').value
        want = 'cls.join_fields([get_column(getattr(data, field.name), field.type) for field in dataclasses.fields(data)])'
        if src_of(r) != want:
            raise Unsupported('SAMBuffer.from_data does not return %s' % want)
        return 'Definition gen_sam_from_data_joins_fields : bool := true.\n'
    _emit(defs, 'gen_sam_from_data_joins_fields', sam_from_data)

    def sam_lines():
        a = _assign_to(fsj(), 'lines')
        if src_of(a.value) != 'join_columns(fields_list, cls.DELIMITER)':
            raise Unsupported('join_fields does not start from join_columns(fields_list, cls.DELIMITER)')
        fl = _assign_to(fsj(), 'flat')
        if src_of(fl.value) != 'lines.ravel()':
            raise Unsupported('flat is not lines.ravel()')
        rets = [src_of(n.value) for n in _stmts(fsj(), ast.Return)]
        if sorted(rets) != ['flat', 'flat[keep]']:
            raise Unsupported('join_fields does not return flat / flat[keep]: %s' % rets)
        k = _assign_to(fsj(), 'keep')
        if src_of(k.value) != 'np.ones(flat.size, dtype=bool)':
            raise Unsupported('keep is not an all-True mask')
        return True

    def sam_no_tags():
        sam_lines()
        a = _assign_to(fsj(), 'no_tags')
        c = a.value
        if not (isinstance(c, ast.Call) and src_of(c.func) == 'np.flatnonzero' and len(c.args) == 1
                and isinstance(c.args[0], ast.Compare) and isinstance(c.args[0].left, ast.Subscript)
                and src_of(c.args[0].left.value) == 'lines.lengths' and isinstance(c.args[0].left.slice, ast.Slice)
                and c.args[0].left.slice.upper is None):
            raise Unsupported('no_tags is not np.flatnonzero(lines.lengths[a::b] <cmp> k): %s' % src_of(c))
        return c.args[0]
    NF = {'len(fields_list)': 'n_fields'}
    _emit(defs, 'gen_sam_tags_start', lambda: K03(fsj(), NF).define('gen_sam_tags_start', ['n_fields'], sam_no_tags().left.slice.lower))
    _emit(defs, 'gen_sam_tags_step', lambda: K03(fsj(), NF).define('gen_sam_tags_step', ['n_fields'], sam_no_tags().left.slice.step))

    def sam_no_tags_test():
        c = sam_no_tags()
        k = K03(fsj(), NF, {id(c.left): 'cell_len'})
        return k.define_bool('gen_sam_no_tags', ['cell_len'], [], c)
    _emit(defs, 'gen_sam_no_tags', sam_no_tags_test)
    _emit(defs, 'gen_sam_cell_end', lambda: K03(fsj(), {'np.cumsum(lines.lengths)': 'cum'}).define(
        'gen_sam_cell_end', ['cum'], _assign_to(fsj(), 'cell_ends').value))

    def sam_drop():
        a = _one([n for n in _stmts(fsj(), ast.Assign) if len(n.targets) == 1 and isinstance(n.targets[0], ast.Subscript)
                  and src_of(n.targets[0].value) == 'keep'], 'keep[...] = ...')
        if not (isinstance(a.value, ast.Constant) and a.value.value is False):
            raise Unsupported('the mask is not cleared (keep[...] = False)')
        t = a.targets[0].slice
        if not (isinstance(t, ast.Subscript) and src_of(t.value) == 'cell_ends'):
            raise Unsupported('masked positions are not cell_ends[...]: %s' % src_of(t))
        return K03(fsj(), dict(NF, no_tags='r')).define('gen_sam_drop_index', ['r', 'n_fields'], t.slice)
    _emit(defs, 'gen_sam_drop_index', sam_drop)

    return ('bionumpy/io/{buffers/sam,multiline_buffer,dump_csv,delimited_buffers,one_line_buffer,fastq_buffer,vcf_buffers,parser,files}.py', defs)


def _raise(e):
    raise e

"""C19 — translation of the decision rules of the table code (bnpdataclass.py, string_array.py) into Coq.

The anchored code of C19 has almost no arithmetic; what carries the property is a set of small rules: which branch of
the implicit conversion a declared field type takes (and in which ORDER the tests are tried), what happens to empty
inputs, which representation is sorted, how nested field names are joined and split, on which side StringArray pads
and how it counts lengths.  Each rule is matched by the exact shape / source text of the statements that implement it
and emitted as a bool / Z / list function of flags (one bool per atomic test).  Fail closed: any other shape raises
Unsupported, the definition is emitted as `unit`, and Bridge/C19.v stops compiling.

Reading conventions (stated in notes/C19.md): a rule that is ABSENT in the expected place is emitted with its
"absent" value only where the absence itself is a well-defined older shape of the code (e.g. from_entry_tuples
without the empty rule, sort_by without the key conversion); everything else is Unsupported.
"""
import ast
import os

from translate.py2coq import Unsupported, find_function, src_of

REPO = os.environ.get('VERIF_REPO', '/repo')
BNP = 'bionumpy/bnpdataclass/bnpdataclass.py'
SA = 'bionumpy/string_array.py'


def parse(rel):
    return ast.parse(open(os.path.join(REPO, rel)).read())


def _clean(msg):
    # the reason goes into a Coq comment: neutralise comment delimiters and string quotes occurring in python source
    return str(msg).replace('(*', '( *').replace('*)', '* )').replace('"', "'")


def emit(defs, name, fn):
    try:
        defs.append(fn())
    except Unsupported as e:
        defs.append('(* NOT TRANSLATED: %s *)\nDefinition %s : unit := tt.\n' % (_clean(e), name))
    except Exception as e:
        defs.append('(* NOT TRANSLATED: %s: %s *)\nDefinition %s : unit := tt.\n' % (type(e).__name__, _clean(e), name))


def body_of(func):
    """statements of a function without its docstring"""
    b = list(func.body)
    if b and isinstance(b[0], ast.Expr) and isinstance(b[0].value, ast.Constant) and isinstance(b[0].value.value, str):
        b = b[1:]
    return b


def cond(node, atoms, used):
    """and / or / not over atomic tests listed (by exact source text) in `atoms`"""
    s = src_of(node)
    if s in atoms:
        if atoms[s] not in used:
            used.append(atoms[s])
        return atoms[s]
    if isinstance(node, ast.BoolOp):
        op = 'andb' if isinstance(node.op, ast.And) else 'orb'
        vals = [cond(v, atoms, used) for v in node.values]
        txt = vals[-1]
        for v in reversed(vals[:-1]):
            txt = '(%s %s %s)' % (op, v, txt)
        return txt
    if isinstance(node, ast.UnaryOp) and isinstance(node.op, ast.Not):
        return '(negb %s)' % cond(node.operand, atoms, used)
    raise Unsupported('condition outside the rule table: %s' % s)


def sig(params):
    return ' '.join('(%s : bool)' % p for p in params)


# ------------------------------------------------------------------------------------------------ from_entry_tuples
def from_rows(tree):
    f = find_function(tree, 'BNPDataClass.from_entry_tuples')
    b = body_of(f)
    srcs = [src_of(s) for s in b]
    if srcs == ['return cls(*(list(c) for c in zip(*tuples)))']:
        return True, False                      # transposes by zip(*tuples); no rule for zero rows
    if (len(b) == 3 and srcs[0] == 'columns = [list(c) for c in zip(*tuples)]'
            and srcs[1] == 'if not columns:\n    return cls.empty()' and srcs[2] == 'return cls(*columns)'):
        return True, True
    raise Unsupported('from_entry_tuples has an unknown shape: %s' % ' | '.join(srcs)[:200])


def from_rows_argument_uses(tree):
    """how often the body of from_entry_tuples mentions its Iterable argument: every mention is (at most) one
    traversal, and a one-shot iterator survives exactly one.  Counted on the AST for ANY shape of the body; a body that
    rebinds the name or hands it to something that is not known to traverse it once is Unsupported."""
    f = find_function(tree, 'BNPDataClass.from_entry_tuples')
    arg = f.args.args[1].arg
    loads = stores = 0
    for st in body_of(f):
        for n in ast.walk(st):
            if isinstance(n, ast.Name) and n.id == arg:
                if isinstance(n.ctx, ast.Load):
                    loads += 1
                else:
                    stores += 1
    if stores:
        raise Unsupported('from_entry_tuples rebinds its argument %s' % arg)
    return loads


# ------------------------------------------------------------------------------------------------ sort_by
def sort_by(tree):
    """-> (coq text of the key rule over flags is_era / is_sa, stable?)"""
    f = find_function(tree, 'BNPDataClass.sort_by')
    b = body_of(f)
    if len(b) == 1 and src_of(b[0]) == 'return self[np.argsort(getattr(self, field_name))]':
        return '0', False
    if not (b and src_of(b[0]) == 'key = getattr(self, field_name)'):
        raise Unsupported('sort_by does not start with key = getattr(self, field_name)')
    # symbolic state: conv (converted through as_string_array), sa (is a StringArray now), raw (its raw bytes taken)
    conv, sa, raw = 'false', 'is_sa', 'false'
    for st in b[1:-1]:
        s = src_of(st)
        if s == 'if isinstance(key, EncodedRaggedArray):\n    key = as_string_array(key)':
            if raw != 'false':
                raise Unsupported('conversion after raw()')
            conv, sa = 'is_era', '(orb %s is_era)' % sa
        elif s == 'if isinstance(key, StringArray):\n    key = key.raw()':
            raw = sa
        else:
            raise Unsupported('unknown statement in sort_by: %s' % s)
    last = b[-1]
    if not (isinstance(last, ast.Return) and isinstance(last.value, ast.Subscript) and src_of(last.value.value) == 'self'
            and isinstance(last.value.slice, ast.Call) and src_of(last.value.slice.func) == 'np.argsort'
            and len(last.value.slice.args) == 1 and src_of(last.value.slice.args[0]) == 'key'):
        raise Unsupported('sort_by does not return self[np.argsort(key, ...)]')
    kws = {k.arg: src_of(k.value) for k in last.value.slice.keywords}
    if kws not in ({}, {'kind': "'stable'"}, {'kind': "'mergesort'"}):
        raise Unsupported('argsort keywords: %s' % kws)
    return '((if %s then 1 else 0) + (if %s then 2 else 0))' % (conv, raw), bool(kws)


# ------------------------------------------------------------------------------------------------ implicit conversion
TESTS = {
    'field.type == Union[BNPDataClass, str]': 'union_str',
    'field.type in numeric_types + optional_numeric_types': 'numeric',
    'field.type == str': 'str',
    'field.type == SequenceID or field.type == List[str]': 'seqid',
    'is_subclass_or_instance(field.type, Encoding)': 'encoding',
    'field.type == List[int] or field.type == List[bool] or field.type == List[float]': 'list_num',
    'inspect.isclass(field.type) and issubclass(field.type, BNPDataClass)': 'nested',
}
ACTIONS = {                 # the expression finally assigned to `val` in a branch -> action name
    'as_encoded_array(pre_val)': 'as_encoded', 'np.asanyarray(pre_val)': 'asanyarray',
    'as_string_array(pre_val)': 'as_string_array', 'as_encoded_array(pre_val, field.type)': 'as_encoded_typed',
    'RaggedArray(pre_val)': 'ragged', 'pre_val': 'table',
}


def conversion_loop(tree):
    f = find_function(tree, 'bnpdataclass')
    cls = [n for n in f.body if isinstance(n, ast.ClassDef) and n.name == 'NewClass']
    if len(cls) != 1:
        raise Unsupported('no class NewClass in bnpdataclass()')
    m = [n for n in cls[0].body if isinstance(n, ast.FunctionDef) and n.name == '_implicit_format_conversion']
    if len(m) != 1:
        raise Unsupported('no _implicit_format_conversion')
    loops = [n for n in body_of(m[0]) if isinstance(n, ast.For)]
    if len(loops) != 1 or src_of(loops[0].iter) != 'dataclasses.fields(obj)':
        raise Unsupported('conversion is not one loop over dataclasses.fields(obj)')
    return loops[0]


def branches(tree):
    """the if/elif chain on field.type: list of (test source, body statements); the final else must be assert False"""
    loop = conversion_loop(tree)
    chain = [n for n in loop.body if isinstance(n, ast.If)]
    if len(chain) != 1:
        raise Unsupported('expected one if/elif chain in the conversion loop')
    pre = {src_of(s) for s in loop.body if not isinstance(s, ast.If)}
    need = {'pre_val = getattr(obj, field.name)', 'numeric_types = (int, float, bool)',
            'optional_numeric_types = tuple((Optional[t] for t in numeric_types))', 'setattr(obj, field.name, val)'}
    if pre != need:
        raise Unsupported('statements around the chain changed: %s' % sorted(pre ^ need))
    out, node = [], chain[0]
    while True:
        out.append((src_of(node.test), node.body))
        if len(node.orelse) == 1 and isinstance(node.orelse[0], ast.If):
            node = node.orelse[0]
            continue
        if [src_of(s) for s in node.orelse] != ['assert False, field.type']:
            raise Unsupported('the chain does not end in `assert False, field.type`')
        return out


def main_action(stmts):
    """the conversion a branch applies: the last value assigned to `val` on its main path (first `val = f(pre_val…)`
    that is a known action; `val = pre_val` alone counts for the pass-through branches)"""
    found = []
    for n in stmts:
        for a in ast.walk(n):
            if isinstance(a, ast.Assign) and src_of(a.targets[0]) == 'val' and src_of(a.value) in ACTIONS:
                found.append(ACTIONS[src_of(a.value)])
    strong = [x for x in found if x != 'table']
    if strong:
        if len(set(strong)) != 1 and set(strong) != {'ragged', 'asanyarray'} and set(strong) != {'as_string_array'}:
            raise Unsupported('branch applies several conversions: %s' % strong)
        return strong[0]
    if found:
        return 'table'
    raise Unsupported('branch assigns no known conversion to val')


def dispatch(tree):
    items = []
    for test, body in branches(tree):
        if test not in TESTS:
            raise Unsupported('unknown test in the conversion chain: %s' % test)
        items.append('("%s", "%s")' % (TESTS[test], main_action(body)))
    return 'Definition gen_dispatch : list (string * string) :=\n  [%s]%%string.\n' % '; '.join(items)


def branch(tree, name):
    for test, body in branches(tree):
        if TESTS.get(test) == name:
            return body
    raise Unsupported('no %s branch' % name)


EMPTY_ATOMS = {'val.size == 0': 'size0', 'val.dtype == np.float64': 'is_f64',
               'field.type in (int, bool, Optional[int], Optional[bool])': 'decl_int_or_bool'}
MAGN_ATOMS = {'field.type in (int, Optional[int])': 'decl_int', "val.dtype.kind in 'fO'": 'held_as_float_or_object',
              'isinstance(pre_val, (list, tuple))': 'is_list', 'len(pre_val) > 0': 'nonempty',
              'all((type(v) is int for v in pre_val))': 'all_python_ints'}


def numeric_rules(tree):
    """the statements after `val = np.asanyarray(pre_val)` in the numeric branch, classified by the shape of their test:
    -> (magnitude rule `if` or None, empty-dtype rule `if` or None); anything else is Unsupported"""
    body = branch(tree, 'numeric')
    if src_of(body[0]) != 'val = np.asanyarray(pre_val)':
        raise Unsupported('numeric branch does not start with val = np.asanyarray(pre_val)')
    magn = empt = None
    for st in body[1:]:
        if not isinstance(st, ast.If) or st.orelse:
            raise Unsupported('numeric branch: statement that is not a plain `if`: %s' % src_of(st)[:80])
        try:
            cond(st.test, EMPTY_ATOMS, [])
            if empt is not None or len(st.body) != 1:
                raise Unsupported('numeric branch: two empty-column rules')
            empt = st
            continue
        except Unsupported:
            pass
        cond(st.test, MAGN_ATOMS, [])            # raises Unsupported for any other test
        if magn is not None or empt is not None:
            raise Unsupported('numeric branch: magnitude rule duplicated or after the empty-column rule')
        magn = st
    return magn, empt


def empty_dtype_rule(tree):
    _, st = numeric_rules(tree)
    P = ['size0', 'is_f64', 'decl_int_or_bool', 'decl_bool']
    if st is None:
        return 'Definition gen_empty_dtype_rule %s : Z := 0.\n' % sig(P)
    c = cond(st.test, EMPTY_ATOMS, [])
    act = src_of(st.body[0])
    if act != 'val = val.astype(bool if field.type in (bool, Optional[bool]) else int)':
        raise Unsupported('unknown cast: %s' % act)
    return 'Definition gen_empty_dtype_rule %s : Z :=\n  if %s then (if decl_bool then 2 else 1) else 0.\n' % (sig(P), c)


def int_magnitude_rule(tree):
    """python ints without a common NumPy integer type: 1 = hold as uint64, -1 = OverflowError, 0 = rule not applicable"""
    st, _ = numeric_rules(tree)
    P = ['decl_int', 'held_as_float_or_object', 'is_list', 'nonempty', 'all_python_ints', 'min_nonneg', 'max_below_2_64']
    if st is None:
        return 'Definition gen_int_magnitude_rule %s : Z := 0.\n' % sig(P)
    c = cond(st.test, MAGN_ATOMS, [])
    if len(st.body) != 1 or not isinstance(st.body[0], ast.If):
        raise Unsupported('magnitude rule: body is not one if/else')
    inner = st.body[0]
    ic = cond(inner.test, {'min(pre_val) >= 0': 'min_nonneg', 'max(pre_val) < 2 ** 64': 'max_below_2_64'}, [])
    if [src_of(x) for x in inner.body] != ['val = np.array(pre_val, dtype=np.uint64)']:
        raise Unsupported('magnitude rule: the fitting case does not build a uint64 array')
    if not (len(inner.orelse) == 1 and isinstance(inner.orelse[0], ast.Raise)
            and src_of(inner.orelse[0].exc.func) == 'OverflowError'):
        raise Unsupported('magnitude rule: the other case does not raise OverflowError')
    return ('Definition gen_int_magnitude_rule %s : Z :=\n  if %s then (if %s then 1 else (-1)) else 0.\n' % (sig(P), c, ic))


def flat_check(tree):
    body = branch(tree, 'encoding')
    flat = [s for s in body if isinstance(s, ast.If) and src_of(s.test) == 'isinstance(field.type, FlatAlphabetEncoding)']
    if len(flat) != 1 or flat[0].orelse:
        raise Unsupported('no `if isinstance(field.type, FlatAlphabetEncoding)` in the encoding branch')
    inner = flat[0].body
    P = ['is_flat', 'is_ragged', 'some_len_not_1']
    if [src_of(s) for s in inner] == ['val = val.ravel()']:
        return 'Definition gen_flat_check_raises %s : bool := false.\n' % sig(P)
    if (len(inner) == 2 and isinstance(inner[0], ast.If) and not inner[0].orelse and len(inner[0].body) == 1
            and isinstance(inner[0].body[0], ast.Raise) and src_of(inner[1]) == 'val = val.ravel()'):
        atoms = {'isinstance(val, EncodedRaggedArray)': 'is_ragged', 'np.any(val.lengths != 1)': 'some_len_not_1'}
        c = cond(inner[0].test, atoms, [])
        return 'Definition gen_flat_check_raises %s : bool :=\n  (andb is_flat %s).\n' % (sig(P), c)
    raise Unsupported('flat-alphabet branch has an unknown shape')


def nested_converts_lists(tree):
    body = branch(tree, 'nested')
    srcs = [src_of(s) for s in body]
    if srcs == ['val = pre_val']:
        return 'Definition gen_nested_converts_rows : bool := false.\n'
    if (len(body) == 2 and isinstance(body[0], ast.If) and src_of(body[0].test) == 'isinstance(pre_val, (list, tuple))'
            and not body[0].orelse and len(body[0].body) == 1 and srcs[1] == 'val = pre_val'):
        a = body[0].body[0]
        if (isinstance(a, ast.Assign) and src_of(a.targets[0]) == 'pre_val' and isinstance(a.value, ast.IfExp)
                and src_of(a.value.test) == 'len(pre_val)' and src_of(a.value.orelse) == 'field.type.empty()'
                and isinstance(a.value.body, ast.Call) and src_of(a.value.body.func) == 'field.type.from_entry_tuples'):
            return 'Definition gen_nested_converts_rows : bool := true.\n'
    raise Unsupported('nested-table branch has an unknown shape')


# ------------------------------------------------------------------------------------------------ add_fields
def add_name_check(tree):
    f = find_function(tree, 'BNPDataClass.add_fields')
    b = body_of(f)
    st = b[0]
    if not (isinstance(st, ast.For) and src_of(st.iter) == 'fields.keys()' and src_of(st.target) == 'name' and len(st.body) == 1):
        raise Unsupported('add_fields does not start with the loop over field names')
    i = st.body[0]
    if not (isinstance(i, ast.If) and not i.orelse and len(i.body) == 1 and isinstance(i.body[0], ast.Raise)
            and src_of(i.body[0].exc.func) == 'TypeError'):
        raise Unsupported('name check is not `if ...: raise TypeError(...)`')
    c = cond(i.test, {'name.isidentifier()': 'is_identifier'}, [])
    if [src_of(s) for s in b[1:]] != ['fields_with_types = _extract_field_types(fields, field_type_map)',
                                      'new_class = self.__class__.extend(tuple(fields_with_types.items()))',
                                      'return new_class(**{**vars(self), **fields})']:
        raise Unsupported('add_fields body changed')
    return 'Definition gen_add_name_raises (is_identifier : bool) : bool :=\n  %s.\n' % c


def add_empty_rule(tree):
    g = find_function(tree, '_assert_all_same_type')
    b = body_of(g)
    srcs = [src_of(s) for s in b]
    tail = ['original_type = type(values[0])',
            'assert all((isinstance(val, original_type) for val in values)), (original_type, [type(val) for val in values])']
    if srcs == tail:
        skips = False
    elif srcs == ['if len(values) == 0:\n    return'] + tail:
        skips = True
    else:
        raise Unsupported('_assert_all_same_type has an unknown shape')
    # _extract_field_types: ordered rule for the type of one new field
    f = find_function(tree, '_extract_field_types')
    loop = [n for n in body_of(f) if isinstance(n, ast.For)]
    if len(loop) != 1 or src_of(loop[0].iter) != 'fields_with_values.keys()':
        raise Unsupported('_extract_field_types is not a loop over the field names')
    lb = loop[0].body
    if src_of(lb[0]) != '_assert_all_same_type(fields_with_values[field_name])' or not isinstance(lb[1], ast.If):
        raise Unsupported('_extract_field_types: check / type rule not found')
    atoms = {'field_type_map is not None and field_name in field_type_map': 'in_map',
             'len(fields_with_values[field_name]) == 0': 'is_empty',
             'isinstance(fields_with_values[field_name][0], EncodedArray)': 'is_encoded'}
    codes = {'field_type = field_type_map[field_name]': '1', 'field_type = type(fields_with_values[field_name][0].encoding)': '2',
             'field_type = type(fields_with_values[field_name][0])': '3'}
    node, txt, close = lb[1], '', ''
    while True:
        if src_of(node.test) not in atoms or len(node.body) != 1:
            raise Unsupported('unknown clause in the type rule: %s' % src_of(node.test))
        st = node.body[0]
        if isinstance(st, ast.Raise) and src_of(st.exc.func) == 'TypeError':
            code = '(-1)'
        elif src_of(st) in codes:
            code = codes[src_of(st)]
        else:
            raise Unsupported('unknown action in the type rule: %s' % src_of(st))
        txt += 'if %s then %s else ' % (atoms[src_of(node.test)], code)
        if len(node.orelse) == 1 and isinstance(node.orelse[0], ast.If):
            node = node.orelse[0]
            continue
        if len(node.orelse) != 1 or src_of(node.orelse[0]) not in codes:
            raise Unsupported('type rule does not end in a plain assignment')
        txt += codes[src_of(node.orelse[0])]
        break
    return ('Definition gen_same_type_check_skips_empty : bool := %s.\n\n' % ('true' if skips else 'false')
            + 'Definition gen_add_type_rule (in_map : bool) (is_empty : bool) (is_encoded : bool) : Z :=\n  %s.\n\n' % txt
            # an empty column whose type is given: raises unless the same-type check skips it and the map is consulted first
            + 'Definition gen_add_empty_typed_raises : bool :=\n'
              '  negb (andb gen_same_type_check_skips_empty (Z.eqb (gen_add_type_rule true true false) 1)).\n')


# ------------------------------------------------------------------------------------------------ todict / from_dict
def dict_join(tree):
    f = find_function(tree, 'BNPDataClass.todict')
    upd = [n for n in ast.walk(f) if isinstance(n, ast.Call) and src_of(n.func) == 'field_dict.update']
    if len(upd) != 1 or len(upd[0].args) != 1 or not isinstance(upd[0].args[0], ast.DictComp):
        raise Unsupported('todict: no field_dict.update({...}) with a dict comprehension')
    dc = upd[0].args[0]
    if src_of(dc.generators[0].iter) != 'pandas_obj.items()' or src_of(dc.generators[0].target) != '(k, v)' or src_of(dc.value) != 'v':
        raise Unsupported('todict: comprehension is not over pandas_obj.items()')
    k = dc.key
    if not (isinstance(k, ast.JoinedStr) and len(k.values) == 3 and isinstance(k.values[0], ast.FormattedValue)
            and isinstance(k.values[1], ast.Constant) and isinstance(k.values[2], ast.FormattedValue)
            and src_of(k.values[0].value) == 'field.name' and src_of(k.values[2].value) == 'k'):
        raise Unsupported('todict: key is not f"{field.name}<sep>{k}"')
    sep = k.values[1].value
    if not (isinstance(sep, str) and len(sep) >= 1 and all(ord(c) < 128 for c in sep)):
        raise Unsupported('todict: separator is not ASCII text')
    return ('Definition gen_dict_join (name sub : list Z) : list Z :=\n  name ++ [%s] ++ sub.\n'
            % '; '.join(str(ord(c)) for c in sep))


def dict_split(tree):
    f = find_function(tree, 'BNPDataClass.from_dict')
    loops = [n for n in body_of(f) if isinstance(n, ast.For) and src_of(n.iter) == 'dict_object.items()']
    if len(loops) != 1 or len(loops[0].body) != 1 or not isinstance(loops[0].body[0], ast.If):
        raise Unsupported('from_dict: no loop over dict_object.items() with one if')
    i = loops[0].body[0]
    t = i.test
    if not (isinstance(t, ast.Compare) and isinstance(t.ops[0], ast.In) and isinstance(t.left, ast.Constant)
            and src_of(t.comparators[0]) == 'name' and isinstance(t.left.value, str) and len(t.left.value) == 1):
        raise Unsupported("from_dict: test is not `'<c>' in name`")
    sep = t.left.value
    want = ["name, subname = name.split(%r, maxsplit=1)" % sep, 'new_dict[name][subname] = value']
    if [src_of(s) for s in i.body] != want and [src_of(s) for s in i.body] != ["name, subname = name.split(%r, 1)" % sep, want[1]]:
        raise Unsupported('from_dict: split statement changed: %s' % src_of(i.body[0]))
    if [src_of(s) for s in i.orelse] != ['new_dict[name] = value']:
        raise Unsupported('from_dict: else branch changed')
    # (separator, maxsplit, the first part is the field name)
    return 'Definition gen_dict_split : Z * Z * bool := (%d, 1, true).\n' % ord(sep)


# ------------------------------------------------------------------------------------------------ string_array.py
def sa_lengths(tree):
    f = find_function(tree, 'StringArray.lengths')
    b = body_of(f)
    if len(b) != 1 or src_of(b[0]) != 'return np.count_nonzero(self._as_bytes(), axis=-1)':
        raise Unsupported('StringArray.lengths is not count_nonzero over the last axis of the bytes')
    g = body_of(find_function(tree, 'StringArray._as_bytes'))
    if src_of(g[-1]) != 'return data.view(np.uint8).reshape(data.shape + (-1,))':
        raise Unsupported('StringArray._as_bytes changed')
    return ('Definition gen_sa_length (row : list Z) : Z :=\n'
            '  Z.of_nat (length (filter (fun c => negb (Z.eqb c 0)) row)).\n')


def sa_from_encoded(tree):
    """string_array(EncodedRaggedArray): padding side, and what the two empty guards return"""
    f = find_function(tree, 'string_array')
    br = None
    for n in ast.walk(f):
        if isinstance(n, ast.If) and src_of(n.test) == 'isinstance(input_data, (EncodedRaggedArray, EncodedArray))':
            br = n
    if br is None:
        raise Unsupported('string_array: no branch for encoded input')
    b = br.body
    srcs = [src_of(s) for s in b]
    if not (len(b) == 6 and srcs[1] == 'array = input_data.raw()' and isinstance(b[2], ast.If)
            and src_of(b[2].test) == 'isinstance(input_data, EncodedRaggedArray)' and isinstance(b[3], ast.If)
            and srcs[4] == 'n_bytes = array.shape[-1]' and srcs[5] == "return StringArray(array.flatten().view(f'|S{n_bytes}'))"):
        raise Unsupported('string_array: encoded branch has an unknown shape')
    rb = b[2].body
    if not (len(rb) == 2 and isinstance(rb[0], ast.If) and src_of(rb[0].test) == 'input_data.size == 0'
            and [src_of(s) for s in rb[0].body] == ["return StringArray(np.zeros(len(input_data), dtype='S1'))"]):
        raise Unsupported('string_array: guard for a ragged array without characters changed')
    pm = rb[1]
    if not (isinstance(pm, ast.Assign) and src_of(pm.targets[0]) == 'array' and isinstance(pm.value, ast.Call)
            and src_of(pm.value.func) == 'array.as_padded_matrix'):
        raise Unsupported('string_array: no as_padded_matrix')
    kws = {k.arg: src_of(k.value) for k in pm.value.keywords}
    if pm.value.args or set(kws) != {'side'} or kws['side'] not in ("'right'", "'left'"):
        raise Unsupported('as_padded_matrix arguments: %s' % kws)
    if not (src_of(b[3].test) == 'array.size == 0'
            and [src_of(s) for s in b[3].body] == ["return StringArray(np.zeros(len(array), dtype='S1'))"]):
        raise Unsupported('string_array: guard for an empty matrix changed')
    return ('Definition gen_sa_pads_right : bool := %s.\n\n' % ('true' if kws['side'] == "'right'" else 'false')
            # width (bytes per entry) of the result: the guards answer S1 when there is no character at all, otherwise
            # the padded matrix' last axis
            + 'Definition gen_sa_width_from_encoded (no_chars : bool) (longest : Z) : Z :=\n  if no_chars then 1 else longest.\n')


def gen():
    defs = ['From Coq Require Import Bool List.\nImport ListNotations.\n']
    t = parse(BNP)
    s = parse(SA)
    emit(defs, 'gen_from_rows_transposes', lambda: 'Definition gen_from_rows_transposes : bool := %s.\n' % ('true' if from_rows(t)[0] else 'false'))
    emit(defs, 'gen_from_rows_empty_rule', lambda: 'Definition gen_from_rows_empty_rule : bool := %s.\n' % ('true' if from_rows(t)[1] else 'false'))
    emit(defs, 'gen_from_rows_argument_uses', lambda: 'Definition gen_from_rows_argument_uses : Z := %d.\n' % from_rows_argument_uses(t))
    emit(defs, 'gen_sort_key_rule', lambda: 'Definition gen_sort_key_rule (is_era : bool) (is_sa : bool) : Z :=\n  %s.\n' % sort_by(t)[0])
    emit(defs, 'gen_sort_stable', lambda: 'Definition gen_sort_stable : bool := %s.\n' % ('true' if sort_by(t)[1] else 'false'))
    emit(defs, 'gen_dispatch', lambda: dispatch(t))
    emit(defs, 'gen_empty_dtype_rule', lambda: empty_dtype_rule(t))
    emit(defs, 'gen_int_magnitude_rule', lambda: int_magnitude_rule(t))
    emit(defs, 'gen_flat_check_raises', lambda: flat_check(t))
    emit(defs, 'gen_nested_converts_rows', lambda: nested_converts_lists(t))
    emit(defs, 'gen_add_name_raises', lambda: add_name_check(t))
    emit(defs, 'gen_add_type_rule', lambda: add_empty_rule(t))
    emit(defs, 'gen_dict_join', lambda: dict_join(t))
    emit(defs, 'gen_dict_split', lambda: dict_split(t))
    emit(defs, 'gen_sa_length', lambda: sa_lengths(s))
    emit(defs, 'gen_sa_pads_right', lambda: sa_from_encoded(s))
    return BNP + ', ' + SA, defs

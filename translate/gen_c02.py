"""gen_c02 — regenerates coq/theories/Gen/C02.v from the delimited-text parsing code of /repo.

Kernels (source function -> generated definitions):
  io/delimited_buffers.py DelimitedBuffer._get_n_fields          gen_n_fields
  io/delimited_buffers.py DelimitedBuffer.from_raw_buffer        gen_frb_size, gen_frb_keep, gen_frb_sentinel, gen_frb_sentinel_pos
  io/delimited_buffers.py DelimitedBuffer._get_buffer_extractor  gen_gbe_start, gen_gbe_end, gen_gbe_entry_start_col,
                                                                 gen_gbe_entry_end, gen_gbe_entry_ends_before_cr
  io/delimited_buffers.py DelimitedBuffer._modify_for_carriage_return
                                                                 gen_cr_probe, gen_cr_byte, gen_cr_elem_probe, gen_cr_adjust
  io/file_buffers.py move_intervals_to_digit_array               gen_mida_width, gen_mida_index, gen_mida_n_fill, gen_mida_fill_start
  io/file_buffers.py move_intervals_to_right_padded_array         gen_stop_len (stop_at: the cell ends at its first ':' only if inside the cell)
  io/file_buffers.py TextBufferExtractor.__init__ / get_field_by_number
                                                                 gen_field_len, gen_gfbn_first, gen_gfbn_step, gen_gfbn_keep_len
  io/vcf_buffers.py VCFBuffer._get_field_by_number               gen_vcf_shift_col, gen_vcf_shift
  io/buffers/sam.py SAMBufferExctractor._get_extra_field         gen_sam_extra_start, gen_sam_extra_end0, gen_sam_extra_probe, gen_sam_extra_end, gen_sam_extra_len
  io/buffers/sam.py SAMBuffer._get_buffer_extractor / _modify_for_carriage_return
                                                                 gen_sam_entry_ends_before_cr, gen_sam_last_field, gen_sam_cr_probe, gen_sam_cr_adjust
  io/named_text_buffer.py NamedBufferExtractor.has_field_mask    gen_hfm_line_len, gen_hfm_ignored
  io/named_text_buffer.py NamedBufferExtractor.has_field_name    gen_flag_len_match (Flag keys: item length == key length)
  io/named_text_buffer.py NamedBufferExtractor.get_field_by_name gen_value_start, gen_value_len, gen_value_keep_len
  io/delimited_buffers.py DelimitedBufferWithInernalComments._calculate_col_starts_and_ends / _get_buffer_extractor
                                                                 gen_ic_probe, gen_ic_end_del, gen_ic_sentinel, gen_ic_start, gen_ic_n_fields, gen_ic_cr_adjusts
  io/multiline_buffer.py MultiLineFastaBuffer.from_raw_buffer    gen_fa_marker, gen_fa_next, gen_fa_cut
  io/multiline_buffer.py MultiLineFastaBuffer.get_data           gen_fa_line_start, gen_fa_entry_line, gen_fa_last_end, gen_fa_n_lines,
                                                                 gen_fa_total, gen_fa_name_from
  io/multiline_buffer.py MultiLineFastaBuffer._modify_ends_for_carriage_returns
                                                                 gen_fa_cr_window, gen_fa_cr_probe, gen_fa_cr_byte, gen_fa_cr_elem_probe, gen_fa_cr_adjust

Reading conventions (trusted; stated in notes/C02.md): an element-wise NumPy expression over equally shaped / broadcast
arrays is read per element; `x.reshape(-1, n)`, `x[..., None]`, `x.ravel()` and boolean-mask selection `x[mask]` do not
change the element; `np.arange(w)` read at position j is j; a comparison used as a number is 0/1; a one-character
string literal is its byte; `delimiters[:-1]` / `delimiters[1:]` read at flat position k are the delimiter before / after
field k (the two slices are matched textually, so swapping them is not translatable); `RaggedView(starts, lens)
.get_flat_indices()` is the set {starts_i + k | k < lens_i}.  Everything else raises Unsupported and the definition is
emitted as `unit`, so Bridge/C02.v stops compiling.
"""
import ast
import os

from translate.py2coq import Kernel, Unsupported, find_function, src_of, CMPOPS

REPO = os.environ.get('VERIF_REPO', '/repo')


class K02(Kernel):
    """Kernel + one-byte string literals, comparisons read as 0/1, shape-only wrappers.  Fail-closed."""

    def __init__(self, func, renames, col=None):
        super().__init__(func, renames)
        self.col = col            # parameter standing for np.arange(...) read per element

    def cond(self, node, params, deps):
        if isinstance(node, ast.Compare) and len(node.ops) == 1 and type(node.ops[0]) in CMPOPS:
            return '(%s %s %s)' % (self.expr(node.left, params, deps), CMPOPS[type(node.ops[0])],
                                   self.expr(node.comparators[0], params, deps))
        raise Unsupported('condition outside the subset: %s' % src_of(node))

    def expr(self, node, params, deps):
        s = src_of(node)
        if s in self.renames:
            return self.renames[s]
        if isinstance(node, ast.Constant) and isinstance(node.value, str) and len(node.value) == 1 and ord(node.value) < 128:
            return str(ord(node.value))
        if isinstance(node, ast.Compare):
            return '(if %s then 1 else 0)' % self.cond(node, params, deps)
        if isinstance(node, ast.Subscript) and src_of(node.slice) in ('..., None', '(..., None)'):
            return self.expr(node.value, params, deps)
        if isinstance(node, ast.Call):
            f = src_of(node.func)
            if f == 'np.arange' and len(node.args) == 1 and not node.keywords and self.col is not None:
                if self.col not in params:
                    raise Unsupported('np.arange read per element needs the position parameter')
                self.expr(node.args[0], params, [])      # the extent must itself be translatable
                return self.col
            if f.endswith('.reshape') and len(node.args) == 2 and src_of(node.args[0]) == '-1' and not node.keywords:
                self.expr(node.args[1], params, [])      # the row width must be a known quantity
                return self.expr(node.func.value, params, deps)
        return super().expr(node, params, deps)


def _parse(rel):
    return ast.parse(open(os.path.join(REPO, rel)).read())


def _emit(defs, name, fn):
    try:
        defs.append(fn())
    except Unsupported as e:
        defs.append('(* NOT TRANSLATED: %s *)\nDefinition %s : unit := tt.\n' % (str(e).replace('*)', '* )'), name))
    except Exception as e:
        defs.append('(* NOT TRANSLATED: %s: %s *)\nDefinition %s : unit := tt.\n' % (type(e).__name__, str(e).replace('*)', '* )'), name))


def _one(nodes, what):
    nodes = list(nodes)
    if len(nodes) != 1:
        raise Unsupported('%s: expected exactly one, found %d' % (what, len(nodes)))
    return nodes[0]


def _assign(func, target_src):
    return _one([n for n in ast.walk(func) if isinstance(n, ast.Assign) and len(n.targets) == 1
                 and src_of(n.targets[0]) == target_src], 'assignment to ' + target_src)


def _assigns(func, target_src):
    return sorted([n for n in ast.walk(func) if isinstance(n, ast.Assign) and len(n.targets) == 1
                   and src_of(n.targets[0]) == target_src], key=lambda n: n.lineno)


def _augassign(func, target_src, op):
    return _one([n for n in ast.walk(func) if isinstance(n, ast.AugAssign) and src_of(n.target) == target_src
                 and isinstance(n.op, op)], 'augmented assignment to ' + target_src)


def _call(func, callee):
    return _one([n for n in ast.walk(func) if isinstance(n, ast.Call) and src_of(n.func) == callee], 'call to ' + callee)


def _int_const(node, what):
    if isinstance(node, ast.UnaryOp) and isinstance(node.op, ast.USub) and isinstance(node.operand, ast.Constant) \
            and isinstance(node.operand.value, int) and not isinstance(node.operand.value, bool):
        return -node.operand.value
    if isinstance(node, ast.Constant) and isinstance(node.value, int) and not isinstance(node.value, bool):
        return node.value
    raise Unsupported('%s is not an integer literal: %s' % (what, src_of(node)))


def _zdef(name, v):
    return 'Definition %s : Z := %s.\n' % (name, '(%d)' % v if v < 0 else str(v))


def _bool_fix(txt, names):
    for b in names:
        txt = txt.replace('(%s : Z)' % b, '(%s : bool)' % b)
    return txt


def gen():
    rel = 'bionumpy/io/delimited_buffers.py, io/file_buffers.py, io/vcf_buffers.py, io/buffers/sam.py, io/named_text_buffer.py, io/multiline_buffer.py'
    defs = ['From Coq Require Import Bool.\n']
    T = {}

    def tree(r):
        if r not in T:
            T[r] = _parse(r)
        return T[r]
    DB = 'bionumpy/io/delimited_buffers.py'
    FB = 'bionumpy/io/file_buffers.py'

    # ---- DelimitedBuffer._get_n_fields: number of columns from the first line
    def n_fields():
        f = find_function(tree(DB), 'DelimitedBuffer._get_n_fields')
        r = _one([n for n in ast.walk(f) if isinstance(n, ast.Return)], 'return of _get_n_fields')
        return K02(f, {'entry_ends[0]': 'e0'}).define('gen_n_fields', ['e0'], r.value)
    _emit(defs, 'gen_n_fields', n_fields)

    # ---- DelimitedBuffer.from_raw_buffer
    frb = lambda: find_function(tree(DB), 'DelimitedBuffer.from_raw_buffer')
    _emit(defs, 'gen_frb_size', lambda: K02(frb(), {'delimiters[entry_ends[-1]]': 'd_last'}).define('gen_frb_size', ['d_last'], 'size'))

    def frb_insert():
        c = _call(frb(), 'np.insert')
        if len(c.args) != 3 or c.keywords:
            raise Unsupported('np.insert call changed: %s' % src_of(c))
        a = c.args[0]
        if not (isinstance(a, ast.Subscript) and src_of(a.value) == 'delimiters' and isinstance(a.slice, ast.Slice)
                and a.slice.lower is None and a.slice.step is None and a.slice.upper is not None):
            raise Unsupported('first argument of np.insert is not delimiters[:<bound>]: %s' % src_of(a))
        # the result must be what is handed to _get_buffer_extractor under the name `delimiters`
        asg = _one([n for n in ast.walk(frb()) if isinstance(n, ast.Assign) and n.value is c], 'assignment of np.insert result')
        if src_of(asg.targets[0]) != 'delimiters':
            raise Unsupported('np.insert result is not assigned to delimiters')
        return c, a
    _emit(defs, 'gen_frb_keep', lambda: K02(frb(), {'entry_ends[-1]': 'e_last'}).define('gen_frb_keep', ['e_last'], frb_insert()[1].slice.upper))
    _emit(defs, 'gen_frb_sentinel', lambda: _zdef('gen_frb_sentinel', _int_const(frb_insert()[0].args[2], 'inserted value')))
    _emit(defs, 'gen_frb_sentinel_pos', lambda: _zdef('gen_frb_sentinel_pos', _int_const(frb_insert()[0].args[1], 'insert position')))

    # ---- DelimitedBuffer._get_buffer_extractor
    gbe = lambda: find_function(tree(DB), 'DelimitedBuffer._get_buffer_extractor')
    REN = {'delimiters[:-1]': 'd_prev', 'delimiters[1:]': 'd_next'}
    _emit(defs, 'gen_gbe_start', lambda: K02(gbe(), REN).define('gen_gbe_start', ['d_prev', 'd_next', 'n_cols'], _assign(gbe(), 'starts').value))

    def gbe_end():
        a = _assigns(gbe(), 'ends')
        if not a:
            raise Unsupported('no assignment to ends')
        return K02(gbe(), REN).define('gen_gbe_end', ['d_prev', 'd_next', 'n_cols'], a[0].value)
    _emit(defs, 'gen_gbe_end', gbe_end)

    def col_of(target, base):
        v = _assign(gbe(), target).value
        # <base>[:, c] (+ 1)
        sub = v.left if isinstance(v, ast.BinOp) else v
        if not (isinstance(sub, ast.Subscript) and src_of(sub.value) == base and isinstance(sub.slice, ast.Tuple)
                and len(sub.slice.elts) == 2 and src_of(sub.slice.elts[0]) == ':'):
            raise Unsupported('%s is not %s[:, c]: %s' % (target, base, src_of(v)))
        return v, sub, _int_const(sub.slice.elts[1], 'column of ' + target)
    _emit(defs, 'gen_gbe_entry_start_col', lambda: (lambda r: _zdef('gen_gbe_entry_start_col', r[2])
                                                   if r[0] is r[1] else (_ for _ in ()).throw(Unsupported('entry_starts is not a bare column')))(col_of('entry_starts', 'starts')))

    def gbe_entry_end():
        v, sub, c = col_of('entry_ends', 'ends')
        if c != -1:
            raise Unsupported('entry_ends is not taken from the last column')
        return K02(gbe(), {src_of(sub): 'e_last'}).define('gen_gbe_entry_end', ['e_last'], v)
    _emit(defs, 'gen_gbe_entry_end', gbe_entry_end)

    def gbe_order():
        f = gbe()
        ee = _assign(f, 'entry_ends')
        cr = [n for n in ast.walk(f) if isinstance(n, ast.Assign) and len(n.targets) == 1 and src_of(n.targets[0]) == 'ends'
              and isinstance(n.value, ast.Call) and src_of(n.value.func) == 'cls._modify_for_carriage_return']
        cr = _one(cr, 'ends = cls._modify_for_carriage_return(...)')
        if [src_of(a) for a in cr.value.args] != ['ends', 'data']:
            raise Unsupported('arguments of _modify_for_carriage_return changed')
        if ee not in f.body or cr not in f.body:
            raise Unsupported('entry_ends / CR adjustment not at the top level of the function')
        return 'Definition gen_gbe_entry_ends_before_cr : bool := %s.\n' % ('true' if f.body.index(ee) < f.body.index(cr) else 'false')
    _emit(defs, 'gen_gbe_entry_ends_before_cr', gbe_order)

    # ---- DelimitedBuffer._modify_for_carriage_return
    mcr = lambda: find_function(tree(DB), 'DelimitedBuffer._modify_for_carriage_return')

    def cr_test():
        f = mcr()
        tests = [n.test for n in ast.walk(f) if isinstance(n, ast.If) and isinstance(n.test, ast.Compare)
                 and isinstance(n.test.left, ast.Subscript) and src_of(n.test.left.value) == 'data']
        t = _one(tests, 'if data[...] == <byte>')
        if not (len(t.ops) == 1 and isinstance(t.ops[0], ast.Eq)):
            raise Unsupported('CR test is not an equality')
        return t
    _emit(defs, 'gen_cr_probe', lambda: K02(mcr(), {'ends[0, -1]': 'e0'}).define('gen_cr_probe', ['e0'], cr_test().left.slice))

    def cr_byte():
        c = cr_test().comparators[0]
        if not (isinstance(c, ast.Constant) and isinstance(c.value, str) and len(c.value) == 1):
            raise Unsupported('CR test does not compare with a one-byte literal')
        return _zdef('gen_cr_byte', ord(c.value))
    _emit(defs, 'gen_cr_byte', cr_byte)

    def cr_aug():
        a = _augassign(mcr(), 'ends[:, -1]', ast.Sub)
        v = a.value
        if not (isinstance(v, ast.Compare) and isinstance(v.left, ast.Subscript) and src_of(v.left.value) == 'data'):
            raise Unsupported('ends[:, -1] -= ... is not a comparison on data[...]')
        return a, v
    _emit(defs, 'gen_cr_elem_probe', lambda: K02(mcr(), {'ends[:, -1]': 'e'}).define('gen_cr_elem_probe', ['e'], cr_aug()[1].left.slice))

    def cr_adjust():
        a, v = cr_aug()
        k = K02(mcr(), {'ends[:, -1]': 'e', src_of(v.left): 'c'})
        # e -= (c == '\r')   read as   e - (if c =? 13 then 1 else 0)
        node = ast.BinOp(left=a.target, op=ast.Sub(), right=v)
        return k.define('gen_cr_adjust', ['e', 'c'], node)
    _emit(defs, 'gen_cr_adjust', cr_adjust)

    # ---- file_buffers.move_intervals_to_digit_array
    mida = lambda: find_function(tree(FB), 'move_intervals_to_digit_array')
    PM = ['starts', 'ends', 'max_chars']

    def mida_width():
        v = _assign(mida(), 'max_chars').value
        if not (isinstance(v, ast.Call) and src_of(v.func) == 'np.max' and len(v.args) == 1 and not v.keywords):
            raise Unsupported('max_chars is not np.max(<widths>): %s' % src_of(v))
        return K02(mida(), {}).define('gen_mida_width', ['starts', 'ends'], v.args[0])
    _emit(defs, 'gen_mida_width', mida_width)
    _emit(defs, 'gen_mida_index', lambda: K02(mida(), {}, col='j').define('gen_mida_index', PM + ['j'], 'indices'))

    def mida_view():
        c = _call(mida(), 'RaggedView')
        if len(c.args) != 2 or c.keywords:
            raise Unsupported('RaggedView call changed')
        # its flat indices are what gets the fill value
        tgt = _one([n for n in ast.walk(mida()) if isinstance(n, ast.Assign) and isinstance(n.targets[0], ast.Subscript)
                    and src_of(n.targets[0].value) == 'array'], 'array[...] = fill')
        if src_of(tgt.targets[0].slice) != 'zeroed' or src_of(tgt.value) != 'fill_value':
            raise Unsupported('fill assignment changed: %s' % src_of(tgt))
        return c
    _emit(defs, 'gen_mida_n_fill', lambda: K02(mida(), {}).define('gen_mida_n_fill', PM, mida_view().args[1]))
    _emit(defs, 'gen_mida_fill_start', lambda: K02(mida(), {'starts.size': 'n_rows'}, col='row').define(
        'gen_mida_fill_start', ['row', 'n_rows', 'max_chars'], mida_view().args[0]))

    # ---- file_buffers.move_intervals_to_right_padded_array, stop_at branch: where a cell ends
    def stop_len():
        f = find_function(tree(FB), 'move_intervals_to_right_padded_array')
        i = _one([n for n in ast.walk(f) if isinstance(n, ast.If) and src_of(n.test) == 'stop_at is not None'], 'if stop_at is not None')
        a = _one([n for n in i.body if isinstance(n, ast.Assign) and src_of(n.targets[0]) == 'lens'], 'lens = ... in the stop_at branch')
        nl = _one([n for n in i.body if isinstance(n, ast.Assign) and src_of(n.targets[0]) == 'new_lens'], 'new_lens = ...')
        if src_of(nl.value) != 'np.argmax(array == stop_at, axis=-1)':
            raise Unsupported('new_lens is not the position of the first stop byte: %s' % src_of(nl.value))
        if i.body.index(nl) > i.body.index(a):
            raise Unsupported('new_lens assigned after its use')
        return K02(f, {'lens': 'l', 'new_lens': 'p'}).define('gen_stop_len', ['l', 'p'], a.value)
    _emit(defs, 'gen_stop_len', stop_len)

    # ---- TextBufferExtractor: field length and column selection
    def field_len():
        f = find_function(tree(FB), 'TextBufferExtractor.__init__')
        a = _one([n for n in ast.walk(f) if isinstance(n, ast.Assign) and src_of(n.targets[0]) == 'self._field_lens'
                  and isinstance(n.value, ast.BinOp)], 'self._field_lens = <ends - starts>')
        return K02(f, {}).define('gen_field_len', ['field_starts', 'field_ends'], a.value)
    _emit(defs, 'gen_field_len', field_len)
    gfbn = lambda: find_function(tree(FB), 'TextBufferExtractor.get_field_by_number')

    def gfbn_slice(target, base):
        a = _assigns(gfbn(), target)
        if not a:
            raise Unsupported('no assignment to ' + target)
        v = a[0].value
        if not (isinstance(v, ast.Subscript) and src_of(v.value) == base and isinstance(v.slice, ast.Slice)
                and v.slice.upper is None and v.slice.lower is not None and v.slice.step is not None):
            raise Unsupported('%s is not %s[first::step]: %s' % (target, base, src_of(v)))
        return v.slice
    REN_G = {'self._n_fields': 'n_fields'}

    def gfbn_sel():
        sl, ss = gfbn_slice('lens', 'self._field_lens.ravel()'), gfbn_slice('starts', 'self._field_starts.ravel()')
        if src_of(sl) != src_of(ss):
            raise Unsupported('lengths and starts are selected differently')
        k = K02(gfbn(), REN_G)
        return (k.define('gen_gfbn_first', ['field_nr', 'n_fields'], sl.lower)
                + k.define('gen_gfbn_step', ['field_nr', 'n_fields'], sl.step))
    _emit(defs, 'gen_gfbn_first', gfbn_sel)

    def gfbn_keep():
        f = gfbn()
        i = _one([n for n in ast.walk(f) if isinstance(n, ast.If) and src_of(n.test) == 'keep_sep'], 'if keep_sep')
        if len(i.body) != 1 or i.orelse or not isinstance(i.body[0], ast.Assign) or src_of(i.body[0].targets[0]) != 'lens':
            raise Unsupported('keep_sep branch changed')
        return K02(f, {'lens': 'l'}).define('gen_gfbn_keep_len', ['l'], i.body[0].value)
    _emit(defs, 'gen_gfbn_keep_len', gfbn_keep)

    # ---- VCFBuffer._get_field_by_number: POS - 1
    def vcf_shift():
        f = find_function(tree('bionumpy/io/vcf_buffers.py'), 'VCFBuffer._get_field_by_number')
        ifs = [n for n in ast.walk(f) if isinstance(n, ast.If) and len(n.body) == 1 and isinstance(n.body[0], ast.AugAssign)
               and src_of(n.body[0].target) == 'val']
        i = _one(ifs, 'if <column>: val -= ...')
        t = i.test
        if not (isinstance(t, ast.Compare) and src_of(t.left) == 'field_nr' and len(t.ops) == 1 and isinstance(t.ops[0], ast.Eq) and not i.orelse):
            raise Unsupported('shift condition changed: %s' % src_of(t))
        aug = i.body[0]
        if not isinstance(aug.op, (ast.Sub, ast.Add)):
            raise Unsupported('shift is not += / -=')
        # val must be the parsed column and must be what is returned
        a = _assign(f, 'val')
        if not src_of(a.value).startswith('super()._get_field_by_number('):
            raise Unsupported('val is not the parsed column')
        r = max([n for n in ast.walk(f) if isinstance(n, ast.Return)], key=lambda n: n.lineno)
        if src_of(r.value) != 'val':
            raise Unsupported('shifted value is not returned')
        node = ast.BinOp(left=aug.target, op=aug.op, right=aug.value)
        return (_zdef('gen_vcf_shift_col', _int_const(t.comparators[0], 'shifted column'))
                + K02(f, {}).define('gen_vcf_shift', ['val'], node))
    _emit(defs, 'gen_vcf_shift_col', vcf_shift)

    # ---- SAMBufferExctractor._get_extra_field
    sam = lambda: find_function(tree('bionumpy/io/buffers/sam.py'), 'SAMBufferExctractor._get_extra_field')
    _emit(defs, 'gen_sam_extra_start', lambda: K02(sam(), {'self._field_starts[:, -1]': 's_last', 'self._field_lens[:, -1]': 'l_last'}).define(
        'gen_sam_extra_start', ['s_last', 'l_last'], 'starts'))

    def sam_ends():
        f = sam()
        c = _call(f, 'self._extract_data')
        if [src_of(a) for a in c.args] != ['lens', 'starts']:
            raise Unsupported('_extract_data arguments changed')
        a = _assigns(f, 'ends')
        if len(a) != 2:
            raise Unsupported('ends is not assigned exactly twice in _get_extra_field')
        return a
    _emit(defs, 'gen_sam_extra_end0', lambda: K02(sam(), {'self._entry_ends': 'entry_end'}).define('gen_sam_extra_end0', ['entry_end'], sam_ends()[0].value))

    def sam_end():
        v = sam_ends()[1].value            # ends - (self._data[np.maximum(ends - 1, 0)] == '\r')
        if not (isinstance(v, ast.BinOp) and isinstance(v.op, ast.Sub) and isinstance(v.right, ast.Compare)
                and isinstance(v.right.left, ast.Subscript) and src_of(v.right.left.value) == 'self._data'):
            raise Unsupported('second assignment to ends changed: %s' % src_of(v))
        probe = v.right.left.slice
        k = K02(sam(), {'ends': 'e', src_of(v.right.left): 'c'})
        return (K02(sam(), {'ends': 'e'}).define('gen_sam_extra_probe', ['e'], probe)
                + k.define('gen_sam_extra_end', ['e', 'c'], v))
    _emit(defs, 'gen_sam_extra_probe', sam_end)
    _emit(defs, 'gen_sam_extra_len', lambda: K02(sam(), {'ends': 'en'}).define('gen_sam_extra_len', ['en', 'starts'], _assign(sam(), 'lens').value))

    # ---- SAMBuffer._get_buffer_extractor / _modify_for_carriage_return (ragged field ends)
    def sam_gbe_order():
        f = find_function(tree('bionumpy/io/buffers/sam.py'), 'SAMBuffer._get_buffer_extractor')
        ee = _assign(f, 'entry_ends')
        if src_of(ee.value) != 'all_ends[:, -1] + 1':
            raise Unsupported('entry_ends changed: %s' % src_of(ee.value))
        cr = _one([n for n in f.body if isinstance(n, ast.Assign) and src_of(n.targets[0]) == 'all_ends'
                   and isinstance(n.value, ast.Call) and src_of(n.value.func) == 'cls._modify_for_carriage_return'], 'CR adjustment')
        if [src_of(x) for x in cr.value.args] != ['all_ends', 'data']:
            raise Unsupported('arguments of _modify_for_carriage_return changed')
        if src_of(_assign(f, 'common_fields').value) != '11':
            raise Unsupported('number of mandatory fields changed')
        return 'Definition gen_sam_entry_ends_before_cr : bool := %s.\n' % ('true' if f.body.index(ee) < f.body.index(cr) else 'false')
    _emit(defs, 'gen_sam_entry_ends_before_cr', sam_gbe_order)
    smcr = lambda: find_function(tree('bionumpy/io/buffers/sam.py'), 'SAMBuffer._modify_for_carriage_return')
    _emit(defs, 'gen_sam_last_field', lambda: K02(smcr(), {'np.cumsum(ends.lengths)': 'cum'}).define('gen_sam_last_field', ['cum'], 'last_field'))

    def sam_cr():
        f = smcr()
        a = _augassign(f, 'flat_ends[last_field]', ast.Sub)
        v = a.value
        if not (isinstance(v, ast.Compare) and isinstance(v.left, ast.Subscript) and src_of(v.left.value) == 'data'):
            raise Unsupported('flat_ends[last_field] -= ... is not a comparison on data[...]')
        k = K02(f, {'flat_ends[last_field]': 'e', src_of(v.left): 'c'})
        return (K02(f, {'flat_ends[last_field]': 'e'}).define('gen_sam_cr_probe', ['e'], v.left.slice)
                + k.define('gen_sam_cr_adjust', ['e', 'c'], ast.BinOp(left=a.target, op=ast.Sub(), right=v)))
    _emit(defs, 'gen_sam_cr_probe', sam_cr)

    # ---- NamedBufferExtractor
    NB = 'bionumpy/io/named_text_buffer.py'
    hfm = lambda: find_function(tree(NB), 'NamedBufferExtractor.has_field_mask')
    _emit(defs, 'gen_hfm_line_len', lambda: K02(hfm(), {'len(name)': 'name_len'}).define('gen_hfm_line_len', ['name_len'], 'line_len'))

    def hfm_ignored():
        f = hfm()
        w = _one([n for n in ast.walk(f) if isinstance(n, ast.While)], 'while loop')
        t = w.test
        cmp_ = t.values[-1] if isinstance(t, ast.BoolOp) and isinstance(t.op, ast.And) else t
        if not (isinstance(cmp_, ast.Compare) and len(cmp_.ops) == 1 and type(cmp_.ops[0]) in CMPOPS):
            raise Unsupported('loop guard is not a comparison: %s' % src_of(t))
        if not (len(w.body) == 1 and isinstance(w.body[0], ast.AugAssign) and src_of(w.body[0]) == 'n_ignored_fields += 1'):
            raise Unsupported('loop body changed')
        k = K02(f, {'len(name)': 'name_len', 'self._data.size': 'size', 'starts[len(starts) - n_ignored_fields - 1]': 'start'})
        deps = []
        body = k.cond(cmp_, ['start', 'name_len', 'size'], deps)
        txt = 'Definition gen_hfm_ignored (start : Z) (name_len : Z) (size : Z) : bool :=\n'
        for d in deps:
            if d != 'line_len':
                raise Unsupported('guard reads %s' % d)
        if 'line_len' in deps:
            txt += '  let line_len := %s in\n' % k.expr(_assign(f, 'line_len').value, ['name_len'], [])
        return txt + '  %s.\n' % body
    _emit(defs, 'gen_hfm_ignored', hfm_ignored)
    def flag_len():
        f = find_function(tree(NB), 'NamedBufferExtractor.has_field_name')
        a = _one([n for n in f.body if isinstance(n, ast.Assign) and src_of(n.targets[0]) == 'mask'], 'mask = <length test>')
        k = K02(f, {'self._field_lens.ravel()': 'l', 'len(name)': 'name_len'})
        body = k.cond(a.value, ['l', 'name_len'], [])
        # the items that pass are then compared with the key over exactly len(name) bytes
        v = _one([n for n in ast.walk(f) if isinstance(n, ast.Call) and src_of(n.func) == 'np.full'], 'np.full(...)')
        if [src_of(x) for x in v.args] != ['mask.sum()', 'len(name)']:
            raise Unsupported('compared width changed: %s' % src_of(v))
        return 'Definition gen_flag_len_match (l : Z) (name_len : Z) : bool :=\n  %s.\n' % body
    _emit(defs, 'gen_flag_len_match', flag_len)
    gbn = lambda: find_function(tree(NB), 'NamedBufferExtractor.get_field_by_name')
    _emit(defs, 'gen_value_start', lambda: K02(gbn(), {'len(name)': 'name_len', 'self._field_starts.ravel()[mask]': 'start'}).define(
        'gen_value_start', ['start', 'name_len'], 'field_starts'))
    _emit(defs, 'gen_value_len', lambda: K02(gbn(), {'len(name)': 'name_len', 'self._field_lens.ravel()[mask]': 'l'}).define(
        'gen_value_len', ['l', 'name_len'], _assign(gbn(), 'lens').value))

    def value_keep():
        f = gbn()
        i = _one([n for n in ast.walk(f) if isinstance(n, ast.If) and src_of(n.test) == 'keep_sep'
                  and len(n.body) == 1 and isinstance(n.body[0], ast.AugAssign)], 'if keep_sep: lens += ...')
        aug = i.body[0]
        if src_of(aug.target) != 'lens' or not isinstance(aug.op, (ast.Add, ast.Sub)) or i.orelse:
            raise Unsupported('keep_sep branch changed')
        return K02(f, {'lens': 'l'}).define('gen_value_keep_len', ['l'], ast.BinOp(left=aug.target, op=aug.op, right=aug.value))
    _emit(defs, 'gen_value_keep_len', value_keep)

    # ---- MultiLineFastaBuffer (wrapped FASTA): from_raw_buffer / get_data / _modify_ends_for_carriage_returns
    ML = 'bionumpy/io/multiline_buffer.py'
    mfrb = lambda: find_function(tree(ML), 'MultiLineFastaBuffer.from_raw_buffer')
    mgd = lambda: find_function(tree(ML), 'MultiLineFastaBuffer.get_data')
    mcr = lambda: find_function(tree(ML), 'MultiLineFastaBuffer._modify_ends_for_carriage_returns')

    def fa_scan():
        cls = find_function(tree(ML), 'MultiLineFastaBuffer')
        mk = _one([n for n in cls.body if isinstance(n, ast.Assign) and src_of(n.targets[0]) == '_new_entry_marker'], 'marker attribute')
        if not (isinstance(mk.value, ast.Constant) and isinstance(mk.value.value, str) and len(mk.value.value) == 1):
            raise Unsupported('marker is not a one-byte literal')
        f = mfrb()
        nl = _assign(f, 'new_lines').value          # np.flatnonzero(chunk[:-1] == '\n')
        if src_of(nl) != "np.flatnonzero(chunk[:-1] == '\\n')":
            raise Unsupported('new_lines changed: %s' % src_of(nl))
        ne = _assign(f, 'new_entries').value        # np.flatnonzero(chunk[new_lines + 1] == cls._new_entry_marker)
        if not (isinstance(ne, ast.Call) and src_of(ne.func) == 'np.flatnonzero' and len(ne.args) == 1
                and isinstance(ne.args[0], ast.Compare) and len(ne.args[0].ops) == 1 and isinstance(ne.args[0].ops[0], ast.Eq)
                and src_of(ne.args[0].comparators[0]) == 'cls._new_entry_marker'
                and isinstance(ne.args[0].left, ast.Subscript) and src_of(ne.args[0].left.value) == 'chunk'):
            raise Unsupported('new_entries changed: %s' % src_of(ne))
        es = _assign(f, 'entry_starts').value       # new_lines[new_entries] + 1
        if src_of(_assign(f, 'cut_chunk').value) != 'chunk[:entry_starts[-1]]':
            raise Unsupported('cut_chunk changed')
        r = _one([n for n in ast.walk(f) if isinstance(n, ast.Return)], 'return of from_raw_buffer')
        if [src_of(a) for a in r.value.args] != ['cut_chunk', 'new_lines[:new_entries[-1]]', 'new_entries[:-1]']:
            raise Unsupported('constructor arguments changed: %s' % src_of(r.value))
        return (_zdef('gen_fa_marker', ord(mk.value.value))
                + K02(f, {'new_lines': 'p'}).define('gen_fa_next', ['p'], ne.args[0].left.slice)
                + K02(f, {'new_lines[new_entries]': 'p'}).define('gen_fa_cut', ['p'], es))
    _emit(defs, 'gen_fa_next', fa_scan)

    def fa_insert(target, base):
        c = _assign(mgd(), target).value            # np.insert(<base> + 1, 0, 0)
        if not (isinstance(c, ast.Call) and src_of(c.func) == 'np.insert' and len(c.args) == 3 and not c.keywords):
            raise Unsupported('%s is not np.insert(...): %s' % (target, src_of(c)))
        if _int_const(c.args[1], 'insert position') != 0 or _int_const(c.args[2], 'inserted value') != 0:
            raise Unsupported('%s: inserted value / position changed: %s' % (target, src_of(c)))
        return K02(mgd(), {base: 'p'}).expr(c.args[0], ['p'], [])
    _emit(defs, 'gen_fa_line_start', lambda: 'Definition gen_fa_line_start (p : Z) : Z :=\n  %s.\n' % fa_insert('line_starts', 'self._new_lines'))
    _emit(defs, 'gen_fa_entry_line', lambda: 'Definition gen_fa_entry_line (p : Z) : Z :=\n  %s.\n' % fa_insert('new_entries', 'self._new_entries'))

    def fa_last_end():
        a = _assigns(mgd(), 'line_ends')
        if len(a) != 2 or src_of(a[1].value) != 'self._modify_ends_for_carriage_returns(line_ends, self._data)':
            raise Unsupported('line_ends assignments changed')
        c = a[0].value                              # np.append(self._new_lines, self._data.size - 1)
        if not (isinstance(c, ast.Call) and src_of(c.func) == 'np.append' and len(c.args) == 2 and src_of(c.args[0]) == 'self._new_lines'):
            raise Unsupported('line_ends is not np.append(self._new_lines, ...): %s' % src_of(c))
        if src_of(_assign(mgd(), 'data').value) != 'self._move_intervals_to_ragged_array(line_starts, line_ends)':
            raise Unsupported('line texts are not taken between line_starts and line_ends')
        return K02(mgd(), {'self._data.size': 'size'}).define('gen_fa_last_end', ['size'], c.args[1])
    _emit(defs, 'gen_fa_last_end', fa_last_end)

    def fa_cr():
        f = mcr()
        i = _one([n for n in f.body if isinstance(n, ast.If)], 'if in _modify_ends_for_carriage_returns')
        t = i.test                                  # np.any(data[line_ends[:10] - 1] == '\r')
        if not (isinstance(t, ast.Call) and src_of(t.func) == 'np.any' and len(t.args) == 1 and isinstance(t.args[0], ast.Compare)
                and isinstance(t.args[0].left, ast.Subscript) and src_of(t.args[0].left.value) == 'data'
                and len(t.args[0].ops) == 1 and isinstance(t.args[0].ops[0], ast.Eq)):
            raise Unsupported('CR test changed: %s' % src_of(t))
        probe = t.args[0].left.slice                # line_ends[:10] - 1
        win = _one([n for n in ast.walk(probe) if isinstance(n, ast.Subscript)], 'window slice')
        if not (src_of(win.value) == 'line_ends' and isinstance(win.slice, ast.Slice) and win.slice.lower is None and win.slice.step is None):
            raise Unsupported('CR window changed: %s' % src_of(win))
        if len(i.body) != 1 or not isinstance(i.body[0], ast.Return) or i.orelse:
            raise Unsupported('CR branch changed')
        v = i.body[0].value                         # line_ends - (data[line_ends - 1] == '\r')
        if not (isinstance(v, ast.BinOp) and isinstance(v.right, ast.Compare) and isinstance(v.right.left, ast.Subscript)
                and src_of(v.right.left.value) == 'data'):
            raise Unsupported('CR adjustment changed: %s' % src_of(v))
        last = f.body[-1]
        if not (isinstance(last, ast.Return) and src_of(last.value) == 'line_ends'):
            raise Unsupported('the unadjusted ends are not returned otherwise')
        return (_zdef('gen_fa_cr_window', _int_const(win.slice.upper, 'CR window'))
                + K02(f, {src_of(win): 'e'}).define('gen_fa_cr_probe', ['e'], probe)
                + _zdef('gen_fa_cr_byte', ord(t.args[0].comparators[0].value))
                + K02(f, {'line_ends': 'e'}).define('gen_fa_cr_elem_probe', ['e'], v.right.left.slice)
                + K02(f, {'line_ends': 'e', src_of(v.right.left): 'c'}).define('gen_fa_cr_adjust', ['e', 'c'], v))
    _emit(defs, 'gen_fa_cr_probe', fa_cr)

    def fa_counts():
        v = _assign(mgd(), 'n_lines_per_entry').value     # np.diff(np.append(new_entries, self._new_lines.size + 1)) - 1
        if not (isinstance(v, ast.BinOp) and isinstance(v.left, ast.Call) and src_of(v.left.func) == 'np.diff' and len(v.left.args) == 1):
            raise Unsupported('n_lines_per_entry changed: %s' % src_of(v))
        ap = v.left.args[0]
        if not (isinstance(ap, ast.Call) and src_of(ap.func) == 'np.append' and len(ap.args) == 2 and src_of(ap.args[0]) == 'new_entries'):
            raise Unsupported('n_lines_per_entry changed: %s' % src_of(v))
        h = _assign(mgd(), 'headers').value               # data[new_entries, 1:]
        if not (isinstance(h, ast.Subscript) and src_of(h.value) == 'data' and isinstance(h.slice, ast.Tuple) and len(h.slice.elts) == 2
                and src_of(h.slice.elts[0]) == 'new_entries' and isinstance(h.slice.elts[1], ast.Slice)
                and h.slice.elts[1].upper is None and h.slice.elts[1].step is None):
            raise Unsupported('headers changed: %s' % src_of(h))
        return (K02(mgd(), {src_of(v.left): 'd'}).define('gen_fa_n_lines', ['d'], v)
                + K02(mgd(), {'self._new_lines.size': 'nl'}).define('gen_fa_total', ['nl'], ap.args[1])
                + _zdef('gen_fa_name_from', _int_const(h.slice.elts[1].lower, 'first byte of the name')))
    _emit(defs, 'gen_fa_n_lines', fa_counts)

    # ---- DelimitedBufferWithInernalComments (GFF3 / wig): _calculate_col_starts_and_ends / _get_buffer_extractor
    icc = lambda: find_function(tree(DB), 'DelimitedBufferWithInernalComments._calculate_col_starts_and_ends')
    icg = lambda: find_function(tree(DB), 'DelimitedBufferWithInernalComments._get_buffer_extractor')

    def ic_mask():
        f = icc()
        a = _assigns(f, 'comment_mask')
        if len(a) != 2 or src_of(a[1].value) != 'np.flatnonzero(comment_mask)':
            raise Unsupported('comment_mask assignments changed')
        v = a[0].value                       # (data[delimiters[:-1]] == '\n') & (data[delimiters[:-1] + 1] == cls.COMMENT)
        if not (isinstance(v, ast.BinOp) and isinstance(v.op, ast.BitAnd) and isinstance(v.left, ast.Compare) and isinstance(v.right, ast.Compare)):
            raise Unsupported('comment_mask is not a conjunction of two comparisons: %s' % src_of(v))
        if src_of(v.left) != "data[delimiters[:-1]] == '\\n'":
            raise Unsupported('first conjunct changed: %s' % src_of(v.left))
        r = v.right
        if not (len(r.ops) == 1 and isinstance(r.ops[0], ast.Eq) and src_of(r.comparators[0]) == 'cls.COMMENT'
                and isinstance(r.left, ast.Subscript) and src_of(r.left.value) == 'data'):
            raise Unsupported('second conjunct changed: %s' % src_of(r))
        return K02(f, {'delimiters[:-1]': 'd'}).define('gen_ic_probe', ['d'], r.left.slice)
    _emit(defs, 'gen_ic_probe', ic_mask)

    def ic_deletes():
        f = icc()
        sd = _assigns(f, 'start_delimiters')
        ed = _assigns(f, 'end_delimiters')
        if not sd or src_of(sd[0].value) != 'np.delete(delimiters, comment_mask)[:-1]':
            raise Unsupported('start_delimiters changed')
        c = ed[0].value if ed else None      # np.delete(delimiters, comment_mask + 1)
        if not (isinstance(c, ast.Call) and src_of(c.func) == 'np.delete' and len(c.args) == 2 and src_of(c.args[0]) == 'delimiters'):
            raise Unsupported('end_delimiters changed')
        i = _one([n for n in f.body if isinstance(n, ast.If)], 'if data[0] != COMMENT')
        if src_of(i.test) != 'data[0] != cls.COMMENT' or len(i.body) != 1 or len(i.orelse) != 1:
            raise Unsupported('first-line test changed: %s' % src_of(i.test))
        ins = i.body[0].value                # np.insert(start_delimiters, 0, -1)
        if not (src_of(i.body[0].targets[0]) == 'start_delimiters' and isinstance(ins, ast.Call) and src_of(ins.func) == 'np.insert'
                and len(ins.args) == 3 and src_of(ins.args[0]) == 'start_delimiters' and _int_const(ins.args[1], 'insert position') == 0):
            raise Unsupported('sentinel insertion changed: %s' % src_of(i.body[0]))
        if src_of(i.orelse[0]) != 'end_delimiters = end_delimiters[1:]':
            raise Unsupported('else branch changed: %s' % src_of(i.orelse[0]))
        r = _one([n for n in ast.walk(f) if isinstance(n, ast.Return)], 'return')
        if not (isinstance(r.value, ast.Tuple) and len(r.value.elts) == 2 and src_of(r.value.elts[1]) == 'end_delimiters'):
            raise Unsupported('return changed: %s' % src_of(r.value))
        return (K02(f, {'comment_mask': 'k'}).expr(c.args[1], ['k'], []), _int_const(ins.args[2], 'sentinel'),
                K02(f, {'start_delimiters': 'd'}).expr(r.value.elts[0], ['d'], []))
    _emit(defs, 'gen_ic_end_del', lambda: 'Definition gen_ic_end_del (k : Z) : Z :=\n  %s.\n' % ic_deletes()[0])
    _emit(defs, 'gen_ic_sentinel', lambda: _zdef('gen_ic_sentinel', ic_deletes()[1]))
    _emit(defs, 'gen_ic_start', lambda: 'Definition gen_ic_start (d : Z) : Z :=\n  %s.\n' % ic_deletes()[2])

    def ic_nfields():
        f = icg()
        v = _assign(f, 'n_fields').value     # next((i for i, d in enumerate(ends) if data[d] == '\n')) + 1
        if not (isinstance(v, ast.BinOp) and isinstance(v.left, ast.Call) and src_of(v.left.func) == 'next'):
            raise Unsupported('n_fields changed: %s' % src_of(v))
        if src_of(v.left.args[0]) not in ("(i for i, d in enumerate(ends) if data[d] == '\\n')",):
            raise Unsupported('n_fields scan changed: %s' % src_of(v.left.args[0]))
        se = _one([n for n in ast.walk(f) if isinstance(n, ast.Assign) and src_of(n.targets[0]) in ('starts, ends', '(starts, ends)')], 'starts, ends')
        if src_of(se.value) != 'cls._calculate_col_starts_and_ends(data, delimiters)':
            raise Unsupported('starts, ends are not taken from _calculate_col_starts_and_ends')
        e2 = [n for n in ast.walk(f) if isinstance(n, ast.Assign) and src_of(n.targets[0]) == 'ends']
        cr = len(e2) == 1 and src_of(e2[0].value) == 'cls._modify_for_carriage_return(ends.reshape(-1, n_fields), data)'
        r = _one([n for n in ast.walk(f) if isinstance(n, ast.Return)], 'return')
        if src_of(r.value) != 'TextBufferExtractor(data, starts.reshape(-1, n_fields), ends)':
            raise Unsupported('returned extractor changed: %s' % src_of(r.value))
        if not cr and not any(src_of(n) == 'ends.reshape(-1, n_fields)' for n in ast.walk(f)):
            raise Unsupported('ends are not reshaped')
        return (K02(f, {src_of(v.left): 'i'}).define('gen_ic_n_fields', ['i'], v)
                + 'Definition gen_ic_cr_adjusts : bool := %s.\n' % ('true' if cr else 'false'))
    _emit(defs, 'gen_ic_n_fields', ic_nfields)
    return rel, defs

"""gen_c04 — regenerates coq/theories/Gen/C04.v from the pass-through-write code of the CURRENT source tree.

Kernels (file:function -> generated definitions).  Element-wise NumPy expressions over equally shaped arrays are read
per element; `offsets[:, None]` is read as "row i uses offsets[i]" (broadcast of a column over the fields of a row);
whole-array operations (np.cumsum, np.insert(.., 0, 0), [:-1], [1:], array - constant) are translated to the list
primitives of Base.Prims.
  io/file_buffers.py  TextThroughputExtractor.__getitem__      which constructor argument is indexed   gen_tte_getitem
                      TextThroughputExtractor._make_contigous  lens / new_starts / offsets / re-base    gen_mc_*
                      TextThroughputExtractor.concatenate      offsets, per-operand shifts, flag        gen_cat_*
                      TextThroughputExtractor.get_fields_by_range  start column, length, keep_sep      gen_range_*
  io/bam.py           BamBufferExtractor.__getitem__ / _make_contigous (gather, no state change) / data   gen_bam_*
  io/delimited_buffers.py  DelimitedBuffer._get_buffer_extractor  +1 arithmetic, and whether entry ends are taken
                      before the carriage-return adjustment                                             gen_delim_*
  io/buffers/sam.py   SAMBuffer._get_buffer_extractor (entry ends before the CR adjustment), SAMBufferExctractor._get_extra_field
                      (start, end at the line break or the CR before it, length), SAMBuffer.join_fields                 gen_sam_*
  io/one_line_buffer.py, io/fastq_buffer.py  OneLineBuffer.join_fields (line length = field length + 1 + offset, where the field /
                      header / line feed go), FastQBuffer.join_fields ('+' line position), HEADER / n_lines_per_entry /
                      _line_offsets of FastQBuffer and TwoLineFastaBuffer                                   gen_ol_* gen_fq_* gen_fa_*
Fail closed: anything outside the subset raises Unsupported and the definition is emitted as `unit`.
"""
import ast
import os

from translate.py2coq import Kernel, Unsupported, find_function, src_of

REPO = os.environ.get('VERIF_REPO', '/repo')


def parse(rel):
    return ast.parse(open(os.path.join(REPO, rel)).read())


def is_int(node, v=None):
    if isinstance(node, ast.Constant) and isinstance(node.value, int) and not isinstance(node.value, bool):
        return v is None or node.value == v
    if isinstance(node, ast.UnaryOp) and isinstance(node.op, ast.USub) and is_int(node.operand):
        return v is None or -node.operand.value == v
    return False


def int_of(node):
    if isinstance(node, ast.Constant):
        return node.value
    return -node.operand.value


class ListKernel(Kernel):
    """Kernel + typed translation: every expression is a Z or a (list Z).
    kinds: parameter name -> 'Z' | 'list'.  Supported beyond the base class:
      X[:-1] -> removelast X      X[1:] -> tl X          (X a list)
      np.cumsum(X) -> cumsum X    np.insert(X, 0, c) -> insert0 c X
      X + c, X - c (X list, c an integer expression) -> map (fun e => e op c) X
    List-with-list arithmetic is NOT translated at list level (it is read per element by renaming both operands
    to scalar parameters)."""

    def __init__(self, func, renames, kinds):
        super().__init__(func, renames)
        self.kinds = dict(kinds)
        self.local_kinds = {}

    def tx(self, node, params, deps):
        s = src_of(node)
        if s in self.renames:
            nm = self.renames[s]
            return nm, self.kinds.get(nm, 'Z')
        if is_int(node):
            v = int_of(node)
            return (str(v) if v >= 0 else '(%d)' % v), 'Z'
        if isinstance(node, ast.Name):
            if node.id in params:
                return node.id, self.kinds.get(node.id, 'Z')
            deps.append(node.id)
            if node.id not in self.local_kinds:
                raise Unsupported('kind of local %r unknown at this point' % node.id)
            return node.id, self.local_kinds[node.id]
        if isinstance(node, ast.Subscript) and isinstance(node.slice, ast.Slice):
            t, k = self.tx(node.value, params, deps)
            sl = node.slice
            if k != 'list' or sl.step is not None:
                raise Unsupported('slice of a non-list or with a step: %s' % s)
            if sl.lower is None and sl.upper is not None and is_int(sl.upper, -1):
                return '(removelast %s)' % t, 'list'
            if sl.upper is None and sl.lower is not None and is_int(sl.lower, 1):
                return '(tl %s)' % t, 'list'
            raise Unsupported('slice outside [:-1] / [1:]: %s' % s)
        if isinstance(node, ast.Call):
            f = src_of(node.func)
            if f == 'np.cumsum' and len(node.args) == 1 and not node.keywords:
                t, k = self.tx(node.args[0], params, deps)
                if k != 'list':
                    raise Unsupported('cumsum of a scalar: %s' % s)
                return '(cumsum %s)' % t, 'list'
            if f == 'np.insert' and len(node.args) == 3 and not node.keywords and is_int(node.args[1], 0):
                t, k = self.tx(node.args[0], params, deps)
                c, kc = self.tx(node.args[2], params, deps)
                if k != 'list' or kc != 'Z':
                    raise Unsupported('np.insert outside insert(list, 0, scalar): %s' % s)
                return '(insert0 %s %s)' % (c, t), 'list'
            if f in ('np.maximum', 'max') and len(node.args) == 2 and not node.keywords:
                a, ka = self.tx(node.args[0], params, deps)
                b, kb = self.tx(node.args[1], params, deps)
                if ka == 'Z' and kb == 'Z':
                    return '(Z.max %s %s)' % (a, b), 'Z'
            raise Unsupported('call outside the subset: %s' % s)
        if isinstance(node, ast.BinOp) and isinstance(node.op, (ast.Add, ast.Sub, ast.Mult)):
            op = {ast.Add: '+', ast.Sub: '-', ast.Mult: '*'}[type(node.op)]
            a, ka = self.tx(node.left, params, deps)
            b, kb = self.tx(node.right, params, deps)
            if ka == 'Z' and kb == 'Z':
                return '(%s %s %s)' % (a, op, b), 'Z'
            if ka == 'list' and kb == 'Z' and op in '+-':
                return '(map (fun e : Z => e %s %s) %s)' % (op, b, a), 'list'
            raise Unsupported('array-with-array arithmetic at list level (read it per element): %s' % s)
        if isinstance(node, ast.UnaryOp) and isinstance(node.op, ast.USub):
            a, ka = self.tx(node.operand, params, deps)
            if ka == 'Z':
                return '(- %s)' % a, 'Z'
        raise Unsupported('expression outside the subset: %s' % s)

    def expr(self, node, params, deps):          # the base class interface (Z only)
        t, k = self.tx(node, params, deps)
        if k != 'Z':
            raise Unsupported('list-valued expression where a scalar is expected: %s' % src_of(node))
        return t

    def define_typed(self, coq_name, params, node, want=None):
        """Definition coq_name (p : T)... : R := <node>, locals (assigned exactly once) inlined as lets."""
        pnames = [p for p in params]
        lets, done = [], set()

        def need(name):
            if name in done or name in pnames:
                return
            vals = self.assigns.get(name)
            if not vals or len(vals) != 1 or vals[0] is None:
                raise Unsupported('%s: local %r is not assigned exactly once by a plain assignment' % (coq_name, name))
            # kinds of the locals this one reads must be known first
            for n in ast.walk(vals[0]):
                if isinstance(n, ast.Name) and n.id in self.assigns and n.id not in pnames and n.id not in done \
                        and src_of(n) not in self.renames and n.id != name:
                    need(n.id)
            deps = []
            text, kind = self.tx(vals[0], pnames, deps)
            self.local_kinds[name] = kind
            done.add(name)
            lets.append((name, text))
        for n in ast.walk(node):
            if isinstance(n, ast.Name) and n.id in self.assigns and n.id not in pnames and src_of(n) not in self.renames:
                covered = False
                # a name inside a renamed sub-expression is not read
                for m in ast.walk(node):
                    if m is not n and src_of(m) in self.renames and any(x is n for x in ast.walk(m)):
                        covered = True
                if not covered:
                    need(n.id)
        deps = []
        body, kind = self.tx(node, pnames, deps)
        if want is not None and kind != want:
            raise Unsupported('%s: expected a %s, found a %s' % (coq_name, want, kind))
        ty = {'Z': 'Z', 'list': 'list Z'}
        txt = 'Definition %s %s : %s :=\n' % (coq_name, ' '.join('(%s : %s)' % (p, ty[self.kinds.get(p, 'Z')]) for p in pnames), ty[kind])
        for n, t in lets:
            txt += '  let %s := %s in\n' % (n, t)
        txt += '  %s.\n' % body
        return txt


# ----------------------------------------------------------------------------- statement access (source order)
def stmts(func):
    """plain statements of the function body, nested blocks flattened, in source order"""
    out = []

    def walk(body):
        for st in body:
            out.append(st)
            for fld in ('body', 'orelse'):
                if hasattr(st, fld) and isinstance(getattr(st, fld), list) and not isinstance(st, (ast.FunctionDef, ast.ClassDef)):
                    walk(getattr(st, fld))
    walk(func.body)
    return out


def assigned(func, target_src, occurrence=0):
    """RHS of the occurrence-th assignment whose single target has this source text"""
    hits = [st.value for st in stmts(func) if isinstance(st, ast.Assign) and len(st.targets) == 1 and src_of(st.targets[0]) == target_src]
    if len(hits) <= occurrence:
        raise Unsupported('no assignment #%d to %s' % (occurrence, target_src))
    return hits[occurrence]


def only_assignment(func, target_src):
    hits = [st for st in stmts(func) if isinstance(st, (ast.Assign, ast.AugAssign)) and
            src_of(st.targets[0] if isinstance(st, ast.Assign) else st.target) == target_src]
    if len(hits) != 1 or not isinstance(hits[0], ast.Assign):
        raise Unsupported('%s is not assigned exactly once by a plain assignment' % target_src)
    return hits[0].value


def binop(node, op):
    if not (isinstance(node, ast.BinOp) and isinstance(node.op, op)):
        raise Unsupported('expected a %s expression: %s' % (op.__name__, src_of(node)))
    return node.left, node.right


# ----------------------------------------------------------------------------- constructor-call kernels (__getitem__)
def ctor_args(cls_node, call):
    """map the arguments of `self.__class__(...)` to the parameter names of the class's __init__"""
    init = None
    for ch in cls_node.body:
        if isinstance(ch, ast.FunctionDef) and ch.name == '__init__':
            init = ch
    if init is None:
        raise Unsupported('no __init__')
    names = [a.arg for a in init.args.args][1:]
    if init.args.vararg or init.args.kwarg or call.keywords and any(k.arg is None for k in call.keywords):
        raise Unsupported('star arguments')
    got = {}
    for n, a in zip(names, call.args):
        got[n] = a
    if len(call.args) > len(names):
        raise Unsupported('too many positional arguments')
    for k in call.keywords:
        if k.arg not in names or k.arg in got:
            raise Unsupported('unknown/duplicate keyword %s' % k.arg)
        got[k.arg] = k.value
    return got


def getitem_def(tree, cls_name, coq_name, slots, idx_name, flag):
    """slots: list of (ctor parameter, attribute, kind) with kind in data|rows|flat|other.
    Emits  gen (ixr) (ixe) data fs fl es ee : tuple  where an indexed argument  self._a[idx]  becomes (ix a)."""
    cls = find_function(tree, cls_name)
    f = find_function(tree, cls_name + '.__getitem__')
    if [a.arg for a in f.args.args] != ['self', idx_name]:
        raise Unsupported('__getitem__ signature')
    body = [st for st in f.body if not (isinstance(st, ast.Expr) and isinstance(st.value, ast.Constant))]
    if len(body) != 1 or not isinstance(body[0], ast.Return) or not isinstance(body[0].value, ast.Call) \
            or src_of(body[0].value.func) != 'self.__class__':
        raise Unsupported('__getitem__ is not a single `return self.__class__(...)`')
    got = ctor_args(cls, body[0].value)
    attr_kind = dict((a, k) for _, a, k in slots)
    comps = []
    for p, a, k in slots:
        if p not in got:
            raise Unsupported('constructor argument %s not passed' % p)
        e = got.pop(p)
        s = src_of(e)
        if k == 'other':
            if s != 'self.' + a:
                raise Unsupported('%s = %s' % (p, s))
            continue
        if s == 'self.' + a:
            comps.append(a.lstrip('_'))
        elif s == 'self.%s[%s]' % (a, idx_name):
            comps.append('(%s %s)' % ('ixr' if k == 'rows' else 'ixe', a.lstrip('_')))
        else:
            # an argument built from another attribute: say which, with its own kind of index function
            ok = False
            for _, a2, k2 in slots:
                if s == 'self.%s[%s]' % (a2, idx_name) and k2 == k:
                    comps.append('(%s %s)' % ('ixr' if k == 'rows' else 'ixe', a2.lstrip('_')))
                    ok = True
            if not ok:
                raise Unsupported('%s = %s' % (p, s))
    if flag not in got:
        raise Unsupported('flag %s not passed' % flag)
    fl = got.pop(flag)
    if not (isinstance(fl, ast.Constant) and isinstance(fl.value, bool)):
        raise Unsupported('flag is not a literal')
    if got:
        raise Unsupported('extra constructor arguments %s' % sorted(got))
    comps.append('true' if fl.value else 'false')
    params = []
    for _, a, k in slots:
        if k == 'other':
            continue
        params.append('(%s : %s)' % (a.lstrip('_'), {'data': 'list Z', 'rows': 'list (list Z)', 'flat': 'list Z'}[k]))
    return ('Definition %s (ixr : list (list Z) -> list (list Z)) (ixe : list Z -> list Z) %s :=\n  (%s).\n'
            % (coq_name, ' '.join(params), ', '.join(comps)))


def class_attr(trees, cls_name, attr):
    """literal value of a class attribute, following single inheritance inside the given modules"""
    for _ in range(4):
        node = None
        for t in trees:
            for n in ast.walk(t):
                if isinstance(n, ast.ClassDef) and n.name == cls_name:
                    node = n
        if node is None:
            raise Unsupported('class %s not found' % cls_name)
        for st in node.body:
            if isinstance(st, ast.Assign) and len(st.targets) == 1 and isinstance(st.targets[0], ast.Name) and st.targets[0].id == attr:
                try:
                    return ast.literal_eval(st.value)
                except Exception:
                    raise Unsupported('%s.%s is not a literal' % (cls_name, attr))
        if len(node.bases) != 1 or not isinstance(node.bases[0], ast.Name):
            raise Unsupported('%s.%s: not found and no single base class' % (cls_name, attr))
        cls_name = node.bases[0].id
    raise Unsupported('%s: inheritance chain too long' % attr)


def emit(defs, name, fn):
    try:
        defs.append(fn())
    except Unsupported as e:
        defs.append('(* NOT TRANSLATED: %s *)\nDefinition %s : unit := tt.\n' % (str(e).replace('*)', '* )'), name))
    except Exception as e:      # a vanished function, a syntax error ... : also fail closed
        defs.append('(* NOT TRANSLATED: %s: %s *)\nDefinition %s : unit := tt.\n' % (type(e).__name__, str(e).replace('*)', '* )'), name))


def zip_comprehension(node, var, off, seq, offs):
    """node must be  np.concatenate([<elt> for var, off in zip(seq, offs)])  -> elt"""
    if not (isinstance(node, ast.Call) and src_of(node.func) == 'np.concatenate' and len(node.args) == 1
            and isinstance(node.args[0], ast.ListComp) and len(node.args[0].generators) == 1):
        raise Unsupported('not np.concatenate([.. for ..]): %s' % src_of(node))
    g = node.args[0].generators[0]
    if g.ifs or src_of(g.target) != '%s, %s' % (var, off) and src_of(g.target) != '(%s, %s)' % (var, off):
        raise Unsupported('comprehension target %s' % src_of(g.target))
    if src_of(g.iter) != 'zip(%s, %s)' % (seq, offs):
        raise Unsupported('comprehension iterates over %s' % src_of(g.iter))
    return node.args[0].elt


def plain_comprehension(node, var, seq):
    if not (isinstance(node, ast.Call) and src_of(node.func) == 'np.concatenate' and len(node.args) == 1
            and isinstance(node.args[0], ast.ListComp) and len(node.args[0].generators) == 1):
        raise Unsupported('not np.concatenate([.. for ..]): %s' % src_of(node))
    g = node.args[0].generators[0]
    if g.ifs or src_of(g.target) != var or src_of(g.iter) != seq:
        raise Unsupported('comprehension %s in %s' % (src_of(g.target), src_of(g.iter)))
    return node.args[0].elt


def gen():
    rel = 'bionumpy/io/file_buffers.py'
    defs = ['From Coq Require Import List Bool.\nFrom BNP Require Import Base.Prims.\nImport ListNotations.\n']
    tree = parse(rel)

    # ---------------- TextThroughputExtractor.__getitem__
    TTE = 'TextThroughputExtractor'
    slots = [('data', '_data', 'data'), ('field_starts', '_field_starts', 'rows'), ('field_lens', '_field_lens', 'rows'),
             ('entry_starts', '_entry_starts', 'flat'), ('entry_ends', '_entry_ends', 'flat')]
    emit(defs, 'gen_tte_getitem', lambda: getitem_def(tree, TTE, 'gen_tte_getitem', slots, 'idx', 'is_contiguous'))

    # ---------------- TextThroughputExtractor._make_contigous
    def mc():
        return find_function(tree, TTE + '._make_contigous')

    def mc_len():
        f = mc()
        k = ListKernel(f, {'self._entry_ends': 'entry_end', 'self._entry_starts': 'entry_start'}, {})
        return k.define_typed('gen_mc_len', ['entry_start', 'entry_end'], only_assignment(f, 'lens'), 'Z')
    emit(defs, 'gen_mc_len', mc_len)

    def mc_new_starts():
        f = mc()
        k = ListKernel(f, {}, {'lens': 'list'})
        return k.define_typed('gen_mc_new_starts', ['lens'], only_assignment(f, 'new_starts'), 'list')
    emit(defs, 'gen_mc_new_starts', mc_new_starts)

    def mc_offset():
        f = mc()
        l, r = binop(only_assignment(f, 'offsets'), ast.Sub)
        if src_of(l) != 'self._entry_starts':
            raise Unsupported('offsets = %s - ...' % src_of(l))
        k = ListKernel(f, {'self._entry_starts': 'entry_start', src_of(r): 'new_start'}, {})
        k2 = ListKernel(f, {}, {'new_starts': 'list'})
        return (k.define_typed('gen_mc_offset', ['entry_start', 'new_start'], only_assignment(f, 'offsets'), 'Z')
                + k2.define_typed('gen_mc_offset_operand', ['new_starts'], r, 'list'))
    emit(defs, 'gen_mc_offset', mc_offset)

    def mc_entries():
        f = mc()
        k = ListKernel(f, {}, {'new_starts': 'list'})
        return (k.define_typed('gen_mc_entry_starts', ['new_starts'], only_assignment(f, 'self._entry_starts'), 'list')
                + k.define_typed('gen_mc_entry_ends', ['new_starts'], only_assignment(f, 'self._entry_ends'), 'list'))
    emit(defs, 'gen_mc_entry_starts', mc_entries)

    def mc_field_start():
        f = mc()
        v = only_assignment(f, 'self._field_starts')
        l, r = binop(v, ast.Sub)
        if src_of(l) != 'self._field_starts' or src_of(r) != 'offsets[:, None]':
            raise Unsupported('field starts re-based as %s' % src_of(v))
        k = ListKernel(f, {'self._field_starts': 'field_start', 'offsets[:, None]': 'offset'}, {})
        return k.define_typed('gen_mc_field_start', ['field_start', 'offset'], v, 'Z')
    emit(defs, 'gen_mc_field_start', mc_field_start)

    def mc_ravel():
        f = mc()
        v = only_assignment(f, 'self._data')
        want = 'EncodedRaggedArray(self._data, RaggedView2(self._entry_starts, lens)).ravel()'
        if src_of(v) != want:
            raise Unsupported('data compacted as %s' % src_of(v))
        # order of statements: the view must be built from the OLD entry starts
        order = [src_of(st.targets[0]) for st in stmts(f) if isinstance(st, ast.Assign) and len(st.targets) == 1]
        if order.index('self._data') > order.index('self._entry_starts'):
            raise Unsupported('data is compacted after the entry starts were overwritten')
        if order.index('offsets') > order.index('self._entry_starts'):
            raise Unsupported('offsets computed after the entry starts were overwritten')
        want_state = {'self._data', 'self._entry_starts', 'self._entry_ends', 'self._field_starts', 'self._is_contiguous'}
        if set(order) & want_state != want_state or any(isinstance(st, ast.Return) and st.value is not None for st in stmts(f)):
            raise Unsupported('_make_contigous does not re-base the object in place: assigns %s' % sorted(order))
        return ('Definition gen_mc_ravel_view (entry_starts lens : list Z) : list Z * list Z :=\n  (entry_starts, lens).\n'
                'Definition gen_mc_inplace : bool := true.\n')
    emit(defs, 'gen_mc_ravel_view', mc_ravel)

    # ---------------- TextThroughputExtractor.concatenate
    def cat():
        return find_function(tree, TTE + '.concatenate')

    def cat_offsets():
        f = cat()
        sz = only_assignment(f, 'sizes')
        if src_of(sz) != 'np.array([b._data.size for b in buffers])':
            raise Unsupported('sizes = %s' % src_of(sz))
        k = ListKernel(f, {}, {'sizes': 'list'})
        return k.define_typed('gen_cat_offsets', ['sizes'], only_assignment(f, 'offsets'), 'list')
    emit(defs, 'gen_cat_offsets', cat_offsets)

    def cat_shift(name, local, attr):
        def g():
            f = cat()
            elt = zip_comprehension(only_assignment(f, local), 'b', 'offset', 'buffers', 'offsets')
            k = ListKernel(f, {'b.' + attr: 'v'}, {})
            return k.define_typed(name, ['v', 'offset'], elt, 'Z')
        return g
    emit(defs, 'gen_cat_field_start', cat_shift('gen_cat_field_start', 'starts', '_field_starts'))
    emit(defs, 'gen_cat_entry_start', cat_shift('gen_cat_entry_start', 'entry_starts', '_entry_starts'))
    emit(defs, 'gen_cat_entry_end', cat_shift('gen_cat_entry_end', 'entry_ends', '_entry_ends'))

    def cat_rest():
        f = cat()
        if src_of(plain_comprehension(only_assignment(f, 'lens'), 'b', 'buffers')) != 'b._field_lens':
            raise Unsupported('lens')
        if src_of(plain_comprehension(only_assignment(f, 'data'), 'b', 'buffers')) != 'b._data':
            raise Unsupported('data')
        ret = [st for st in stmts(f) if isinstance(st, ast.Return)]
        if len(ret) != 1 or not isinstance(ret[0].value, ast.Call) or src_of(ret[0].value.func) != 'cls':
            raise Unsupported('return')
        got = ctor_args(find_function(tree, TTE), ret[0].value)
        want = {'data': 'data', 'field_starts': 'starts', 'field_lens': 'lens', 'entry_starts': 'entry_starts',
                'entry_ends': 'entry_ends'}
        for p, v in want.items():
            if p not in got or src_of(got[p]) != v:
                raise Unsupported('constructor argument %s' % p)
        fl = got.get('is_contiguous')
        if fl is None or src_of(fl) != 'all((b._is_contiguous for b in buffers))' and src_of(fl) != 'all(b._is_contiguous for b in buffers)':
            raise Unsupported('is_contiguous = %s' % (src_of(fl) if fl is not None else None))
        return 'Definition gen_cat_contiguous (flags : list bool) : bool := forallb (fun b : bool => b) flags.\n'
    emit(defs, 'gen_cat_contiguous', cat_rest)

    # ---------------- get_fields_by_range
    def rng():
        f = find_function(tree, TTE + '.get_fields_by_range')
        st = only_assignment(f, 'starts')
        if src_of(st) != 'self._field_starts[:, from_nr]':
            raise Unsupported('starts = %s' % src_of(st))
        ln = only_assignment_allow_aug(f, 'lens')
        k = ListKernel(f, {'self._entry_ends': 'entry_end', 'starts': 'start'}, {})
        base = k.define_typed('gen_range_len_sep', ['entry_end', 'start'], ln, 'Z')
        # the keep_sep adjustment:  if not keep_sep: lens -= c
        ifs = [s for s in stmts(f) if isinstance(s, ast.If)]
        if len(ifs) != 1 or src_of(ifs[0].test) != 'not keep_sep' or ifs[0].orelse or len(ifs[0].body) != 1:
            raise Unsupported('keep_sep branch')
        a = ifs[0].body[0]
        if not (isinstance(a, ast.AugAssign) and src_of(a.target) == 'lens' and isinstance(a.op, ast.Sub) and is_int(a.value)):
            raise Unsupported('keep_sep adjustment %s' % src_of(a))
        rets = [s for s in stmts(f) if isinstance(s, ast.Return)]
        if len(rets) != 1 or src_of(rets[0].value) != 'self._extract_data(lens, starts)':
            raise Unsupported('return %s' % src_of(rets[0].value))
        return (base + 'Definition gen_range_len (entry_end : Z) (start : Z) (keep_sep : bool) : Z :=\n'
                '  if keep_sep then gen_range_len_sep entry_end start else (gen_range_len_sep entry_end start - %d).\n' % int_of(a.value))

    def only_assignment_allow_aug(f, name):
        hits = [s for s in stmts(f) if isinstance(s, ast.Assign) and len(s.targets) == 1 and src_of(s.targets[0]) == name]
        if len(hits) != 1:
            raise Unsupported('%s assigned %d times' % (name, len(hits)))
        return hits[0].value
    emit(defs, 'gen_range_len', rng)

    # ---------------- BAM
    bam = parse('bionumpy/io/bam.py')
    BE = 'BamBufferExtractor'
    bslots = [('data', '_data', 'data'), ('starts', '_new_lines', 'flat'), ('ends', '_ends', 'flat'),
              ('header_data', '_header_data', 'other')]
    emit(defs, 'gen_bam_getitem', lambda: getitem_def(bam, BE, 'gen_bam_getitem', bslots, 'item', 'is_contigous'))

    def bam_mc():
        f = find_function(bam, BE + '._make_contigous')
        k = ListKernel(f, {'self._ends': 'entry_end', 'self._new_lines': 'entry_start'}, {})
        # since /repo 0f67f4c the function RETURNS the gathered bytes and assigns nothing to the object
        rets = [st for st in stmts(f) if isinstance(st, ast.Return)]
        if len(rets) != 1 or src_of(rets[0].value) != 'RaggedArray(self._data, RaggedView2(self._new_lines, lens)).ravel()':
            raise Unsupported('gather expression: %s' % [src_of(r.value) for r in rets])
        state_writes = [src_of(st.targets[0]) for st in stmts(f) if isinstance(st, ast.Assign) and len(st.targets) == 1
                        and src_of(st.targets[0]).startswith('self.')]
        state_writes += [src_of(st.target) for st in stmts(f) if isinstance(st, ast.AugAssign) and src_of(st.target).startswith('self.')]
        # the `data` property: the gathered value when not contiguous, the buffer itself otherwise
        d = find_function(bam, BE + '.data')
        body = [st for st in d.body if not (isinstance(st, ast.Expr) and isinstance(st.value, ast.Constant))]
        if [src_of(st) for st in body] != ['if not self._is_contigous:\n    return self._make_contigous()', 'return self._data']:
            raise Unsupported('data property: %s' % [src_of(st) for st in body])
        return (k.define_typed('gen_bam_mc_len', ['entry_start', 'entry_end'], only_assignment(f, 'lens'), 'Z')
                + 'Definition gen_bam_gather_view (new_lines lens : list Z) : list Z * list Z :=\n  (new_lines, lens).\n'
                + 'Definition gen_bam_mc_inplace : bool := %s.\n' % ('true' if state_writes else 'false'))
    emit(defs, 'gen_bam_mc_len', bam_mc)

    # ---------------- DelimitedBuffer._get_buffer_extractor
    dl = parse('bionumpy/io/delimited_buffers.py')

    def delim():
        f = find_function(dl, 'DelimitedBuffer._get_buffer_extractor')
        st = assigned(f, 'starts', 0)
        en = assigned(f, 'ends', 0)
        if src_of(st) != 'delimiters[:-1].reshape(-1, n_cols) + 1' or src_of(en) != 'delimiters[1:].reshape(-1, n_cols)':
            raise Unsupported('starts/ends = %s / %s' % (src_of(st), src_of(en)))
        es = only_assignment(f, 'entry_starts')
        ee = only_assignment(f, 'entry_ends')
        if src_of(es) != 'starts[:, 0]':
            raise Unsupported('entry_starts = %s' % src_of(es))
        l, r = binop(ee, ast.Add)
        if src_of(l) != 'ends[:, -1]':
            raise Unsupported('entry_ends = %s' % src_of(ee))
        k = ListKernel(f, {'delimiters[:-1].reshape(-1, n_cols)': 'delimiter', 'ends[:, -1]': 'last_end'}, {})
        # which `ends` does entry_ends read: the raw table or the one adjusted for carriage returns?
        seq = stmts(f)
        pos_entry = [i for i, s in enumerate(seq) if isinstance(s, ast.Assign) and src_of(s.targets[0]) == 'entry_ends'][0]
        cr = [i for i, s in enumerate(seq) if isinstance(s, ast.Assign) and src_of(s.targets[0]) == 'ends'
              and src_of(s.value) == 'cls._modify_for_carriage_return(ends, data)']
        if len(cr) != 1 or len([s for s in seq if isinstance(s, ast.Assign) and src_of(s.targets[0]) == 'ends']) != 2:
            raise Unsupported('carriage-return adjustment of `ends` not found exactly once')
        rets = [s for s in seq if isinstance(s, ast.Return)]
        if len(rets) != 1 or not src_of(rets[0].value).startswith('TextThroughputExtractor(data, starts, field_ends=ends, entry_starts=entry_starts, entry_ends=entry_ends'):
            raise Unsupported('return %s' % src_of(rets[0].value))
        before = pos_entry < cr[0]
        return (k.define_typed('gen_delim_field_start', ['delimiter'], st, 'Z')
                + k.define_typed('gen_delim_entry_end', ['last_end'], ee, 'Z')
                + 'Definition gen_delim_entry_ends_before_cr : bool := %s.\n' % ('true' if before else 'false'))
    emit(defs, 'gen_delim_field_start', delim)

    # ---------------- SAMBuffer.join_fields
    sam = parse('bionumpy/io/buffers/sam.py')

    def samextract():
        f = find_function(sam, 'SAMBuffer._get_buffer_extractor')
        seq = stmts(f)
        ee = only_assignment(f, 'entry_ends')
        l, r = binop(ee, ast.Add)
        if src_of(l) != 'all_ends[:, -1]':
            raise Unsupported('entry_ends = %s' % src_of(ee))
        k = ListKernel(f, {'all_ends[:, -1]': 'last_end'}, {})
        pos_entry = [i for i, st in enumerate(seq) if isinstance(st, ast.Assign) and src_of(st.targets[0]) == 'entry_ends'][0]
        cr = [i for i, st in enumerate(seq) if isinstance(st, ast.Assign) and src_of(st.targets[0]) == 'all_ends'
              and src_of(st.value) == 'cls._modify_for_carriage_return(all_ends, data)']
        first = [i for i, st in enumerate(seq) if isinstance(st, ast.Assign) and src_of(st.targets[0]) == 'all_ends'
                 and src_of(st.value) == 'RaggedArray(delimiters[1:], n_fields)']
        if len(cr) != 1 or len(first) != 1 or not first[0] < pos_entry:
            raise Unsupported('all_ends / carriage-return adjustment not found')
        if src_of(only_assignment(f, 'ends')) != 'all_ends[:, :common_fields]' or \
                [i for i, st in enumerate(seq) if isinstance(st, ast.Assign) and src_of(st.targets[0]) == 'ends'][0] < cr[0]:
            raise Unsupported('field ends are not taken from the adjusted table')
        out = k.define_typed('gen_sam_entry_end', ['last_end'], ee, 'Z')
        out += 'Definition gen_sam_entry_ends_before_cr : bool := %s.\n' % ('true' if pos_entry < cr[0] else 'false')
        # _get_extra_field
        g = find_function(sam, 'SAMBufferExctractor._get_extra_field')
        st = only_assignment(g, 'starts')
        k1 = ListKernel(g, {'self._field_starts[:, -1]': 'last_start', 'self._field_lens[:, -1]': 'last_len'}, {})
        out += k1.define_typed('gen_sam_extra_start', ['last_start', 'last_len'], st, 'Z')
        e0 = assigned(g, 'ends', 0)
        e1 = assigned(g, 'ends', 1)
        if len([x for x in stmts(g) if isinstance(x, ast.Assign) and src_of(x.targets[0]) == 'ends']) != 2:
            raise Unsupported('ends assigned other than twice')
        k2 = ListKernel(g, {'self._entry_ends': 'entry_end'}, {})
        out += k2.define_typed('gen_sam_extra_end0', ['entry_end'], e0, 'Z')
        l, r = binop(e1, ast.Sub)
        if src_of(l) != 'ends' or not (isinstance(r, ast.Compare) and len(r.ops) == 1 and isinstance(r.ops[0], ast.Eq)
                                      and isinstance(r.comparators[0], ast.Constant) and r.comparators[0].value == '\r'
                                      and isinstance(r.left, ast.Subscript) and src_of(r.left.value) == 'self._data'):
            raise Unsupported('carriage-return test: %s' % src_of(e1))
        k3 = ListKernel(g, {'ends': 'end0'}, {})
        out += k3.define_typed('gen_sam_extra_probe', ['end0'], r.left.slice, 'Z')
        out += 'Definition gen_sam_extra_cr_char : Z := %d.\n' % ord('\r')
        ln = only_assignment(g, 'lens')
        k4 = ListKernel(g, {'ends': 'end1', 'starts': 'start'}, {})
        out += k4.define_typed('gen_sam_extra_len', ['end1', 'start'], ln, 'Z')
        rets = [x for x in stmts(g) if isinstance(x, ast.Return)]
        if len(rets) != 1 or src_of(rets[0].value) != 'self._extract_data(lens, starts)':
            raise Unsupported('return %s' % [src_of(x.value) for x in rets])
        return out
    emit(defs, 'gen_sam_entry_end', samextract)

    def samjoin():
        f = find_function(sam, 'SAMBuffer.join_fields')
        nf = only_assignment(f, 'n_fields')
        if src_of(nf) != 'len(fields_list)':
            raise Unsupported('n_fields = %s' % src_of(nf))
        ce = only_assignment(f, 'cell_ends')
        k = ListKernel(f, {'lines.lengths': 'lengths'}, {'lengths': 'list'})
        out = k.define_typed('gen_sam_cell_ends', ['lengths'], ce, 'list')
        # keep[cell_ends[<index>]] = False
        tgt = [s for s in stmts(f) if isinstance(s, ast.Assign) and src_of(s.targets[0]).startswith('keep[cell_ends[')]
        if len(tgt) != 1 or not (isinstance(tgt[0].value, ast.Constant) and tgt[0].value.value is False):
            raise Unsupported('separator removal statement')
        idx = tgt[0].targets[0].slice.slice
        k2 = ListKernel(f, {'no_tags': 'row'}, {})
        out += k2.define_typed('gen_sam_drop_cell', ['row', 'n_fields'], idx, 'Z')
        nt = only_assignment(f, 'no_tags')
        if not (isinstance(nt, ast.Call) and src_of(nt.func) == 'np.flatnonzero' and isinstance(nt.args[0], ast.Compare)
                and len(nt.args[0].ops) == 1 and isinstance(nt.args[0].ops[0], ast.Eq) and is_int(nt.args[0].comparators[0])):
            raise Unsupported('no_tags = %s' % src_of(nt))
        sub = nt.args[0].left
        if not (isinstance(sub, ast.Subscript) and src_of(sub.value) == 'lines.lengths' and isinstance(sub.slice, ast.Slice)
                and sub.slice.upper is None and sub.slice.lower is not None and sub.slice.step is not None):
            raise Unsupported('tag cells selected as %s' % src_of(sub))
        k3 = ListKernel(f, {}, {})
        out += k3.define_typed('gen_sam_tag_first', ['n_fields'], sub.slice.lower, 'Z')
        out += k3.define_typed('gen_sam_tag_step', ['n_fields'], sub.slice.step, 'Z')
        out += 'Definition gen_sam_tag_empty (cell_length : Z) : bool := (cell_length =? %d)%%Z.\n' % int_of(nt.args[0].comparators[0])
        fin = [s for s in stmts(f) if isinstance(s, ast.Return)]
        if [src_of(s.value) for s in fin] != ['flat', 'flat[keep]']:
            raise Unsupported('returns %s' % [src_of(s.value) for s in fin])
        return out
    emit(defs, 'gen_sam_cell_ends', samjoin)

    # ---------------- OneLineBuffer.join_fields / FastQBuffer.join_fields + the class constants (round 6)
    def oljoin():
        ol = parse('bionumpy/io/one_line_buffer.py')
        fq = parse('bionumpy/io/fastq_buffer.py')
        f = find_function(ol, 'OneLineBuffer.join_fields')
        seq = stmts(f)
        fl = only_assignment(f, 'field_lengths')
        if src_of(fl) != 'np.hstack([field.shape[1][:, None] for field in fields])':
            raise Unsupported('field_lengths = %s' % src_of(fl))
        k = ListKernel(f, {'field_lengths': 'field_length'}, {})
        out = k.define_typed('gen_ol_line_len0', ['field_length'], only_assignment(f, 'line_lengths'), 'Z')
        aug = [s for s in seq if isinstance(s, ast.AugAssign)]
        if len(aug) != 1 or src_of(aug[0].target) != 'line_lengths[:, i]' or not isinstance(aug[0].op, ast.Add) \
                or src_of(aug[0].value) != 'cls._line_offsets[i]':
            raise Unsupported('offset statement: %s' % [src_of(s) for s in aug])
        k2 = ListKernel(f, {'line_lengths[:, i]': 'line_length', 'cls._line_offsets[i]': 'offset'}, {})
        out += k2.define_typed('gen_ol_line_add', ['line_length', 'offset'], ast.BinOp(left=aug[0].target, op=ast.Add(), right=aug[0].value), 'Z')
        if src_of(only_assignment(f, 'entry_lengths')) != 'line_lengths.sum(axis=-1)' or src_of(only_assignment(f, 'buffer_size')) != 'entry_lengths.sum()' \
                or src_of(only_assignment(f, 'lines')) != 'EncodedRaggedArray(buf, line_lengths.ravel())' or src_of(only_assignment(f, 'step')) != 'cls.n_lines_per_entry':
            raise Unsupported('entry_lengths / buffer_size / lines / step')
        sets = [s for s in seq if isinstance(s, ast.Assign) and src_of(s.targets[0]).startswith('lines[')]
        if [src_of(s.targets[0]) + ' = ' + src_of(s.value) for s in sets] != [
                'lines[i::step, cls._line_offsets[i]:-1] = field', 'lines[0::step, 0] = cls.HEADER', "lines[:, -1] = '\\n'"]:
            raise Unsupported('line assignments: %s' % [src_of(s) for s in sets])
        loops = [s for s in seq if isinstance(s, ast.For)]
        if [src_of(s.target) + ' in ' + src_of(s.iter) for s in loops] != ['i in range(len(fields))', '(i, field) in enumerate(fields)']:
            raise Unsupported('loops: %s' % [src_of(s.target) + ' in ' + src_of(s.iter) for s in loops])
        rets = [s for s in seq if isinstance(s, ast.Return)]
        if [src_of(s.value) for s in rets] != ['buf']:
            raise Unsupported('return')
        # field i goes to the lines i, i+step, ... from column _line_offsets[i] up to (not including) the last byte; the header
        # character to column 0 of the lines 0, step, ...; the line feed to the last byte of every line
        out += 'Definition gen_ol_field_col (offset : Z) : Z := offset.\n'
        out += 'Definition gen_ol_header_line : Z := 0.\nDefinition gen_ol_header_col : Z := 0.\n'
        out += 'Definition gen_ol_eol : Z := %d.\n' % ord('\n')
        for tag, cls in (('fq', 'FastQBuffer'), ('fa', 'TwoLineFastaBuffer')):
            hdr = class_attr([ol, fq], cls, 'HEADER')
            n = class_attr([ol, fq], cls, 'n_lines_per_entry')
            offs = class_attr([ol, fq], cls, '_line_offsets')
            if not (isinstance(hdr, str) and len(hdr) == 1 and isinstance(n, int) and isinstance(offs, tuple) and all(isinstance(o, int) for o in offs)):
                raise Unsupported('%s: HEADER / n_lines_per_entry / _line_offsets' % cls)
            out += 'Definition gen_%s_header : Z := %d.\nDefinition gen_%s_n_lines : Z := %d.\nDefinition gen_%s_line_offsets : list Z := [%s].\n' % (
                tag, ord(hdr), tag, n, tag, '; '.join(str(o) for o in offs))
        g = find_function(fq, 'FastQBuffer.join_fields')
        pl = only_assignment(g, 'plus_line')
        if src_of(pl) != "as_encoded_array(['+'] * len(fields[0]))":
            raise Unsupported('plus_line = %s' % src_of(pl))
        rets = [s for s in stmts(g) if isinstance(s, ast.Return)]
        if len(rets) != 1 or not (isinstance(rets[0].value, ast.Call) and src_of(rets[0].value.func) == 'super().join_fields' and len(rets[0].value.args) == 1):
            raise Unsupported('FastQBuffer.join_fields return')
        arg = rets[0].value.args[0]
        l, r = binop(arg, ast.Add)
        l1, l2 = binop(l, ast.Add)
        def cut(node, lower):
            if not (isinstance(node, ast.Subscript) and src_of(node.value) == 'fields' and isinstance(node.slice, ast.Slice) and node.slice.step is None):
                raise Unsupported('slice of fields: %s' % src_of(node))
            a, b = (node.slice.lower, node.slice.upper) if lower else (node.slice.upper, node.slice.lower)
            if b is not None or a is None or not is_int(a):
                raise Unsupported('slice of fields: %s' % src_of(node))
            return int_of(a)
        a, b = cut(l1, False), cut(r, True)
        if a != b or src_of(l2) != '[plus_line]':
            raise Unsupported('fields[:a] + [plus_line] + fields[a:] expected: %s' % src_of(arg))
        out += 'Definition gen_fq_plus_pos : Z := %d.\nDefinition gen_fq_plus_char : Z := %d.\n' % (a, ord('+'))
        return out
    emit(defs, 'gen_ol_line_len0', oljoin)
    return rel + ' (+ io/bam.py, io/delimited_buffers.py, io/buffers/sam.py, io/one_line_buffer.py, io/fastq_buffer.py)', defs

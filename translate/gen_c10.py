"""gen_c10 — regenerates coq/theories/Gen/C10.v from the CURRENT source of the C10 kernels:

  bionumpy/genomic_data/global_offset.py   from_local_coordinates, to_local_coordinates, to_local_interval,
                                           start_ends_from_intervals (do_clip=False path)
  bionumpy/genomic_data/genomic_intervals.py  GenomicLocationGlobal.get_windows, GenomicIntervalsFull.clip,
                                           .get_location, .merged, .extended_to_size (call shape)
  bionumpy/genomic_data/geometry.py        Geometry.clip, Geometry.merge_intervals
  bionumpy/arithmetics/intervals.py        extend_to_size

Element-wise NumPy expressions over equally shaped arrays are read per element; `np.any(c)` / `np.all(c)` guards are
read as the per-element predicate `c` (the list-level any/all is in the model and is tied by link lemmas in
Bridge/C10.v).  `np.searchsorted(a, v, side=s)` is not inlined: it becomes a call `searchsorted "s" a v` of a
function parameter, instantiated with the model's function in the bridge (the side is passed on as a string, so a
changed side changes the generated term).  Fail closed: anything outside the subset raises Unsupported and the
definition is emitted as `unit`, which stops Bridge/C10.v from compiling."""
import ast
import os

from translate.py2coq import Kernel, Unsupported, find_function, src_of, BINOPS, CMPOPS

REPO = os.environ.get('VERIF_REPO', '/repo')
Z, B, LZ, SS = 'Z', 'bool', 'list Z', 'string -> list Z -> Z -> Z'


def parse(rel):
    return ast.parse(open(os.path.join(REPO, rel)).read())


class K(Kernel):
    """typed variant: parameters carry a Coq type; boolean expressions; IfExp; np.where on a boolean; searchsorted."""

    def __init__(self, func, renames, stmts=None, choose=None):
        self.func = func
        self.renames = renames
        self.assigns = {}
        self.choose = choose or (lambda node: 'both')
        self._walk(func.body if stmts is None else stmts)

    def _assign(self, t, v):
        if isinstance(t, ast.Name):
            self.assigns.setdefault(t.id, []).append(v)
        elif isinstance(t, ast.Tuple):
            if isinstance(v, ast.Tuple) and len(t.elts) == len(v.elts):
                for a, b in zip(t.elts, v.elts):
                    self._assign(a, b)
            else:
                for a in t.elts:                      # tuple unpacked from a call: not a formula we can slice through
                    if isinstance(a, ast.Name):
                        self.assigns.setdefault(a.id, []).append(None)

    def _walk(self, stmts):
        for s in stmts:
            if isinstance(s, ast.Assign):
                for t in s.targets:
                    self._assign(t, s.value if len(s.targets) == 1 else None)
            elif isinstance(s, ast.AugAssign) and isinstance(s.target, ast.Name):
                self.assigns.setdefault(s.target.id, []).append(None)
            elif isinstance(s, ast.If):
                c = self.choose(s)
                if c in ('body', 'both'):
                    self._walk(s.body)
                if c in ('orelse', 'both'):
                    self._walk(s.orelse)
            elif isinstance(s, (ast.For, ast.While, ast.With, ast.Try)):
                raise Unsupported('control flow outside the subset: %s' % type(s).__name__)

    # ---- typed expressions
    def texpr(self, node, params, deps):
        s = src_of(node)
        if s in self.renames:
            n = self.renames[s]
            if n in ('true', 'false'):
                return n, B
            if n not in params:
                raise Unsupported('rename target %s is not a parameter' % n)
            return n, params[n]
        if isinstance(node, ast.Constant) and isinstance(node.value, int) and not isinstance(node.value, bool):
            return (str(node.value) if node.value >= 0 else '(%d)' % node.value), Z
        if isinstance(node, ast.Name):
            if node.id in params:
                return node.id, params[node.id]
            deps.append(node.id)
            return node.id, None          # type fixed when the let is emitted
        if isinstance(node, ast.BinOp) and type(node.op) in BINOPS:
            a, b = self.zexpr(node.left, params, deps), self.zexpr(node.right, params, deps)
            return '(%s %s %s)' % (a, BINOPS[type(node.op)], b), Z
        if isinstance(node, ast.UnaryOp) and isinstance(node.op, ast.USub):
            return '(- %s)' % self.zexpr(node.operand, params, deps), Z
        if isinstance(node, ast.UnaryOp) and isinstance(node.op, (ast.Not, ast.Invert)):
            return '(negb %s)' % self.bexpr(node.operand, params, deps), B
        if isinstance(node, ast.Compare) and len(node.ops) == 1:
            l, lt = self.texpr(node.left, params, deps)
            r, rt = self.texpr(node.comparators[0], params, deps)
            lt = lt or self.local_type(node.left)
            rt = rt or self.local_type(node.comparators[0])
            if lt == Z and rt == Z and type(node.ops[0]) in CMPOPS:
                return '(%s %s %s)' % (l, CMPOPS[type(node.ops[0])], r), B
            if lt == B and rt == B and isinstance(node.ops[0], ast.Eq):
                return '(Bool.eqb %s %s)' % (l, r), B
            raise Unsupported('comparison outside the subset: %s' % s)
        if isinstance(node, ast.IfExp):
            c = self.bexpr(node.test, params, deps)
            a, at = self.texpr(node.body, params, deps)
            b, bt = self.texpr(node.orelse, params, deps)
            at = at or self.local_type(node.body)
            bt = bt or self.local_type(node.orelse)
            if at != bt:
                raise Unsupported('branches of different type: %s' % s)
            return '(if %s then %s else %s)' % (c, a, b), at
        if isinstance(node, ast.Call):
            f = src_of(node.func)
            if f in ('np.minimum', 'min') and len(node.args) == 2 and not node.keywords:
                return '(Z.min %s %s)' % tuple(self.zexpr(a, params, deps) for a in node.args), Z
            if f in ('np.maximum', 'max') and len(node.args) == 2 and not node.keywords:
                return '(Z.max %s %s)' % tuple(self.zexpr(a, params, deps) for a in node.args), Z
            if f == 'np.where' and len(node.args) == 3 and not node.keywords:
                c = self.bexpr(node.args[0], params, deps)
                return '(if %s then %s else %s)' % (c, self.zexpr(node.args[1], params, deps),
                                                    self.zexpr(node.args[2], params, deps)), Z
            if f == 'np.searchsorted' and len(node.args) == 2:
                side = 'left'
                for kw in node.keywords:
                    if kw.arg == 'side' and isinstance(kw.value, ast.Constant) and isinstance(kw.value.value, str):
                        side = kw.value.value
                    else:
                        raise Unsupported('searchsorted keyword outside the subset: %s' % s)
                if params.get('searchsorted') != SS:
                    raise Unsupported('searchsorted used but not a parameter')
                a, at = self.texpr(node.args[0], params, deps)
                if at != LZ:
                    raise Unsupported('searchsorted over something that is not the offset table: %s' % s)
                return '(searchsorted "%s"%%string %s %s)' % (side, a, self.zexpr(node.args[1], params, deps)), Z
        raise Unsupported('expression outside the subset: %s' % s)

    def local_type(self, node):
        """type of a local name (by translating its unique definition)"""
        if isinstance(node, ast.Name) and node.id in self._types:
            return self._types[node.id]
        raise Unsupported('cannot type %s' % src_of(node))

    def zexpr(self, node, params, deps):
        t, ty = self.texpr(node, params, deps)
        ty = ty or self.local_type(node)
        if ty != Z:
            raise Unsupported('integer expected: %s' % src_of(node))
        return t

    def bexpr(self, node, params, deps):
        t, ty = self.texpr(node, params, deps)
        ty = ty or self.local_type(node)
        if ty != B:
            raise Unsupported('boolean expected: %s' % src_of(node))
        return t

    def free_locals(self, node):
        """local names an expression reads, not looking inside sub-expressions that are renamed to parameters"""
        if src_of(node) in self.renames:
            return []
        if isinstance(node, ast.Name):
            return [node.id] if node.id in self.assigns else []
        out = []
        for ch in ast.iter_child_nodes(node):
            out += self.free_locals(ch)
        return out

    def define_t(self, coq_name, params, out, ret):
        """params: list of (name, type).  out: local name or ast node."""
        pd = dict(params)
        lets, done = [], set()
        self._types = {}

        def need(name):
            if name in done or name in pd:
                return
            vals = self.assigns.get(name)
            if not vals or len(vals) != 1 or vals[0] is None:
                raise Unsupported('%s: local %r is not assigned exactly once by a plain assignment on this path' % (coq_name, name))
            # dependencies first (so that their types are known)
            for d in self.free_locals(vals[0]):
                if d != name:
                    need(d)
            deps = []
            text, ty = self.texpr(vals[0], pd, deps)
            if ty is None:
                ty = self._types.get(text)
                if ty is None:
                    raise Unsupported('cannot type local %s' % name)
            done.add(name)
            self._types[name] = ty
            if text != name:
                lets.append((name, text))
        if isinstance(out, str):
            need(out)
            body, ty = out, self._types.get(out, pd.get(out))
        else:
            for d in self.free_locals(out):
                need(d)
            deps = []
            body, ty = self.texpr(out, pd, deps)
            if ty is None:
                ty = self._types.get(body)
        if ty != ret:
            raise Unsupported('%s: result has type %s, expected %s' % (coq_name, ty, ret))
        txt = 'Definition %s %s : %s :=\n' % (coq_name, ' '.join('(%s : %s)' % p for p in params), ret)
        for n, t in lets:
            txt += '  let %s := %s in\n' % (n, t)
        return txt + '  %s.\n' % body


# ----------------------------------------------------------------------------- structural helpers (all fail closed)
def guards(stmts):
    """[(kind, predicate node)] for the top-level `if np.any(c): raise Exception(..)` (kind 5, refuse when c) and
    `assert np.all(c)` (kind 1, refuse when not c) statements, in order."""
    out = []
    for s in stmts:
        if isinstance(s, ast.If) and isinstance(s.test, ast.Call) and src_of(s.test.func) == 'np.any' and len(s.test.args) == 1:
            r = s.body[-1]
            if not (isinstance(r, ast.Raise) and isinstance(r.exc, ast.Call) and src_of(r.exc.func) == 'Exception' and not s.orelse):
                raise Unsupported('guard does not raise Exception: %s' % src_of(s.test))
            arg = s.test.args[0]
            if isinstance(arg, ast.Call) and src_of(arg.func) == 'np.atleast_1d' and len(arg.args) == 1:
                arg = arg.args[0]
            out.append((5, arg))
        elif isinstance(s, ast.Assert):
            t = s.test
            if isinstance(t, ast.Call) and src_of(t.func) == 'np.all' and len(t.args) == 1:
                out.append((1, t.args[0]))
            else:
                out.append((1, t))
    return out


def the_return(func):
    rets = [s for s in func.body if isinstance(s, ast.Return)]
    if len(rets) != 1 or func.body[-1] is not rets[0]:
        raise Unsupported('%s: not a single final return' % func.name)
    return rets[0].value


def find_call(node, callee):
    hits = [n for n in ast.walk(node) if isinstance(n, ast.Call) and src_of(n.func) == callee]
    if len(hits) != 1:
        raise Unsupported('expected exactly one call to %s, found %d' % (callee, len(hits)))
    return hits[0]


def kwarg(call, name):
    for kw in call.keywords:
        if kw.arg == name:
            return kw.value
    raise Unsupported('no keyword %s in %s' % (name, src_of(call)))


def emit(defs, name, fn):
    try:
        defs.append(fn())
    except Unsupported as e:
        defs.append('(* NOT TRANSLATED: %s *)\nDefinition %s : unit := tt.\n' % (str(e).replace('*)', '* )'), name))
    except Exception as e:
        defs.append('(* NOT TRANSLATED: %s: %s *)\nDefinition %s : unit := tt.\n' % (type(e).__name__, str(e).replace('*)', '* )'), name))


# ----------------------------------------------------------------------------- the kernels
def gen():
    defs = ['From Coq Require Import List Bool.\nImport ListNotations.\n']
    go = parse('bionumpy/genomic_data/global_offset.py')
    gi = parse('bionumpy/genomic_data/genomic_intervals.py')
    geo = parse('bionumpy/genomic_data/geometry.py')
    ar = parse('bionumpy/arithmetics/intervals.py')

    # ---- GlobalOffset.from_local_coordinates
    def flc():
        f = find_function(go, 'GlobalOffset.from_local_coordinates')
        return f, K(f, {'self.get_size(sequence_name)': 'size', 'self.get_offset(sequence_name)': 'off'})

    def flc_reject():
        f, k = flc()
        g = guards(f.body)
        if len(g) != 1 or g[0][0] != 5:
            raise Unsupported('from_local_coordinates: expected exactly one raising guard')
        return k.define_t('gen_from_local_reject', [('size', Z), ('local_offset', Z)], g[0][1], B)
    emit(defs, 'gen_from_local_reject', flc_reject)
    emit(defs, 'gen_from_local_value', lambda: flc()[1].define_t('gen_from_local_value', [('off', Z), ('local_offset', Z)], the_return(flc()[0]), Z))

    # ---- GlobalOffset.to_local_coordinates
    def tlc():
        f = find_function(go, 'GlobalOffset.to_local_coordinates')
        return f, K(f, {'self._offset': 'offset', 'self._offset[chromosome_idxs]': 'off_idx'})

    def tlc_ret(i):
        r = the_return(tlc()[0])
        if not (isinstance(r, ast.Tuple) and len(r.elts) == 2 and isinstance(r.elts[0], ast.Call)
                and src_of(r.elts[0].func) == 'EncodedArray' and src_of(r.elts[0].args[0]) == 'chromosome_idxs'):
            raise Unsupported('to_local_coordinates does not return (EncodedArray(chromosome_idxs, ..), local)')
        return r.elts[1] if i else r.elts[0].args[0]
    emit(defs, 'gen_to_local_idx', lambda: tlc()[1].define_t(
        'gen_to_local_idx', [('searchsorted', SS), ('offset', LZ), ('global_offset', Z)], tlc_ret(0), Z))
    emit(defs, 'gen_to_local_pos', lambda: tlc()[1].define_t(
        'gen_to_local_pos', [('off_idx', Z), ('global_offset', Z)], tlc_ret(1), Z))

    # ---- GlobalOffset.to_local_interval
    def tli():
        f = find_function(go, 'GlobalOffset.to_local_interval')
        return f, K(f, {'self._offset': 'offset', 'self._offset[chromosome_idxs]': 'off_idx',
                        'self._sizes[chromosome_idxs]': 'size_idx',
                        'global_interval.start': 'gstart', 'global_interval.stop': 'gstop'})

    def tli_kw(name):
        c = find_call(tli()[0], 'replace')
        if src_of(kwarg(c, 'chromosome')) != 'chromosome':
            raise Unsupported('to_local_interval: chromosome column is not `chromosome`')
        return kwarg(c, name)

    def tli_idx():
        f, k = tli()
        vals = k.assigns.get('chromosome')
        if not vals or len(vals) != 1 or not (isinstance(vals[0], ast.Call) and src_of(vals[0].func) == 'EncodedArray'
                                              and src_of(vals[0].args[0]) == 'chromosome_idxs'):
            raise Unsupported('to_local_interval: chromosome is not EncodedArray(chromosome_idxs, ..)')
        return k.define_t('gen_tli_idx', [('searchsorted', SS), ('offset', LZ), ('gstart', Z)], 'chromosome_idxs', Z)
    emit(defs, 'gen_tli_idx', tli_idx)
    emit(defs, 'gen_tli_start', lambda: tli()[1].define_t('gen_tli_start', [('off_idx', Z), ('gstart', Z)], tli_kw('start'), Z))
    emit(defs, 'gen_tli_stop', lambda: tli()[1].define_t('gen_tli_stop', [('off_idx', Z), ('gstop', Z)], tli_kw('stop'), Z))

    def tli_assert():
        f, k = tli()
        g = guards(f.body)
        if len(g) != 1 or g[0][0] != 1:
            raise Unsupported('to_local_interval: expected exactly one assertion')
        return k.define_t('gen_tli_assert', [('off_idx', Z), ('size_idx', Z), ('gstop', Z)], g[0][1], B)
    emit(defs, 'gen_tli_assert', tli_assert)

    # ---- GlobalOffset.start_ends_from_intervals, the do_clip=False path
    def sefi():
        f = find_function(go, 'GlobalOffset.start_ends_from_intervals')
        ren = {'self.get_offset(chromosome)': 'off', 'self.get_size(chromosome)': 'size',
               'interval.start': 'start', 'interval.stop': 'istop'}

        def choose(node):
            if src_of(node.test) == 'do_clip':
                return 'orelse'
            if isinstance(node.test, ast.Call) and src_of(node.test.func) == 'np.any':
                return 'none'            # bodies of raising guards define nothing that flows on
            return 'both'
        return f, K(f, ren, choose=choose)

    def sefi_guards():
        f, k = sefi()
        stmts = []
        for s in f.body:
            if isinstance(s, ast.If) and src_of(s.test) == 'do_clip':
                stmts += s.orelse
            else:
                stmts.append(s)
        return k, guards(stmts)

    def sefi_check():
        k, g = sefi_guards()
        if not g:
            raise Unsupported('start_ends_from_intervals: no guards')
        P = [('size', Z), ('start', Z), ('istop', Z)]
        parts = []
        for kind, node in g:
            txt = k.define_t('tmp', P, node, B)
            body = txt.split(':=\n', 1)[1].rstrip('.\n').strip()
            if '\n' in body:           # lets: wrap them into one expression
                body = '(' + body + ')'
            parts.append((kind, body))
        out = '0'
        for kind, body in reversed(parts):
            cond = body if kind == 5 else '(negb %s)' % body
            out = '(if %s then %d else %s)' % (cond, kind, out)
        return ('(* refusal code of one entry, in source order: 5 = raise Exception, 1 = failed assert, 0 = accepted *)\n'
                'Definition gen_se_check (size : Z) (start : Z) (istop : Z) : Z :=\n  %s.\n' % out)
    emit(defs, 'gen_se_check', sefi_check)

    def sefi_ret(i):
        r = the_return(sefi()[0])
        if not (isinstance(r, ast.Tuple) and len(r.elts) == 2):
            raise Unsupported('start_ends_from_intervals does not return a pair')
        return r.elts[i]
    emit(defs, 'gen_se_start', lambda: sefi()[1].define_t('gen_se_start', [('off', Z), ('start', Z)], sefi_ret(0), Z))
    emit(defs, 'gen_se_stop', lambda: sefi()[1].define_t('gen_se_stop', [('off', Z), ('istop', Z)], sefi_ret(1), Z))

    # ---- GenomicLocationGlobal.get_windows
    def win(branch):
        f = find_function(gi, 'GenomicLocationGlobal.get_windows')

        def choose(node):
            t = src_of(node.test)
            if t == 'flank is not None':
                return branch
            if t == 'self.is_stranded()':
                return 'none'
            return 'both'
        return f, K(f, {'self.position': 'position'}, choose=choose)
    emit(defs, 'gen_win_flank_l', lambda: win('body')[1].define_t('gen_win_flank_l', [('flank', Z)], 'l_flank', Z))
    emit(defs, 'gen_win_flank_r', lambda: win('body')[1].define_t('gen_win_flank_r', [('flank', Z)], 'r_flank', Z))
    emit(defs, 'gen_win_size_l', lambda: win('orelse')[1].define_t('gen_win_size_l', [('window_size', Z)], 'l_flank', Z))
    emit(defs, 'gen_win_size_r', lambda: win('orelse')[1].define_t('gen_win_size_r', [('window_size', Z)], 'r_flank', Z))

    def win_iv(i, name):
        f, _ = win('body')
        a = find_call(f, 'Interval')
        b = find_call(f, 'StrandedInterval')
        if src_of(a.args[1]) != src_of(b.args[1]) or src_of(a.args[2]) != src_of(b.args[2]) \
                or src_of(a.args[0]) != 'self.chromosome' or src_of(b.args[0]) != 'self.chromosome':
            raise Unsupported('get_windows: stranded and unstranded windows differ')
        r = the_return(f)
        if not (isinstance(r, ast.Call) and isinstance(r.func, ast.Attribute) and r.func.attr == 'clip' and not r.args
                and isinstance(r.func.value, ast.Call) and src_of(r.func.value.func) == 'GenomicIntervalsFull'
                and src_of(r.func.value.args[0]) == 'intervals'):
            raise Unsupported('get_windows: result is not GenomicIntervalsFull(intervals, ..).clip()')
        k = K(f, {'self.position': 'position'}, stmts=[])
        return k.define_t(name, [('position', Z), ('l_flank', Z), ('r_flank', Z)], a.args[i], Z)
    emit(defs, 'gen_win_start', lambda: win_iv(1, 'gen_win_start'))
    emit(defs, 'gen_win_stop', lambda: win_iv(2, 'gen_win_stop'))

    # ---- clip (GenomicIntervalsFull.clip and Geometry.clip)
    def clip(tree, qual, prefix, ren, which, name):
        f = find_function(tree, qual)
        k = K(f, ren)
        c = find_call(f, 'replace')
        return k.define_t(name, [('size', Z), (which, Z)], kwarg(c, which), Z)
    r1 = {'self._genome_context.global_offset.get_size(self._intervals.chromosome)': 'size', 'self.start': 'start', 'self.stop': 'stop'}
    r2 = {'self._genome_context.global_offset.get_size(intervals.chromosome)': 'size', 'intervals.start': 'start', 'intervals.stop': 'stop'}
    emit(defs, 'gen_clip_start', lambda: clip(gi, 'GenomicIntervalsFull.clip', '', r1, 'start', 'gen_clip_start'))
    emit(defs, 'gen_clip_stop', lambda: clip(gi, 'GenomicIntervalsFull.clip', '', r1, 'stop', 'gen_clip_stop'))
    emit(defs, 'gen_geo_clip_start', lambda: clip(geo, 'Geometry.clip', '', r2, 'start', 'gen_geo_clip_start'))
    emit(defs, 'gen_geo_clip_stop', lambda: clip(geo, 'Geometry.clip', '', r2, 'stop', 'gen_geo_clip_stop'))

    # ---- extend_to_size (arithmetics/intervals.py) and the way GenomicIntervalsFull / Geometry call it
    def ext(out, name):
        f = find_function(ar, 'extend_to_size')
        for qual, tree, want in (('GenomicIntervalsFull.extended_to_size', gi, ['self._intervals', 'size', 'chrom_sizes']),
                                 ('Geometry.extend_to_size', geo, ['intervals', 'fragment_length', 'chrom_sizes'])):
            g = find_function(tree, qual)
            c = find_call(g, 'extend_to_size')
            if [src_of(a) for a in c.args] != want or c.keywords:
                raise Unsupported('%s does not call extend_to_size(%s)' % (qual, ', '.join(want)))
            sz = K(g, {}).assigns.get('chrom_sizes')
            if not sz or len(sz) != 1 or not src_of(sz[0]).startswith('self._genome_context.global_offset.get_size('):
                raise Unsupported('%s: chrom_sizes is not the per-row size lookup' % qual)
        k = K(f, {'intervals.strand.ravel() == "+"': 'is_forward', "intervals.strand.ravel() == '+'": 'is_forward',
                  'intervals.start': 'istart', 'intervals.stop': 'istop'})
        c = find_call(f, 'dataclasses.replace')
        if src_of(kwarg(c, 'start')) != 'start' or src_of(kwarg(c, 'stop')) != 'stop':
            raise Unsupported('extend_to_size: replace(start=start, stop=stop) expected')
        return k.define_t(name, [('is_forward', B), ('istart', Z), ('istop', Z), ('fragment_length', Z), ('chromosome_size', Z)], out, Z)
    emit(defs, 'gen_extend_start', lambda: ext('start', 'gen_extend_start'))
    emit(defs, 'gen_extend_stop', lambda: ext('stop', 'gen_extend_stop'))

    # ---- GenomicIntervalsFull.get_location
    def loc(which, name):
        f = find_function(gi, 'GenomicIntervalsFull.get_location')
        outer = [s for s in f.body if isinstance(s, ast.If)]
        if len(outer) != 1 or src_of(outer[0].test) != "where in ('start', 'stop')":
            raise Unsupported("get_location: outer test is not `where in ('start', 'stop')`")
        o = outer[0]
        inner = [s for s in o.body if isinstance(s, ast.If)]
        if len(inner) != 1 or src_of(inner[0].test) != 'not self.is_stranded()':
            raise Unsupported('get_location: inner test is not `not self.is_stranded()`')
        ren = {"where == 'start'": 'where_is_start', "'+'": 'true', "'-'": 'false', 'self.strand': 'fwd',
               'self.start': 'start', 'self.stop': 'stop'}
        stmts = {'unstranded': inner[0].body, 'stranded': inner[0].orelse, 'center': o.orelse}[which]
        # every path must hand `location` on as the position column
        tail = [s for s in (o.body if which != 'center' else o.orelse) if isinstance(s, ast.Assign) and src_of(s.targets[0]) == 'data']
        if len(tail) != 1 or src_of(tail[0].value) != 'replace(self._intervals, start=location)':
            raise Unsupported('get_location: data is not replace(self._intervals, start=location)')
        if which == 'center':
            a = [s for s in o.orelse if isinstance(s, ast.Assert)]
            if len(a) != 1 or src_of(a[0].test) != "where == 'center'":
                raise Unsupported("get_location: third case is not 'center'")
        k = K(f, ren, stmts=[s for s in stmts if isinstance(s, ast.Assign)])
        P = {'unstranded': [('where_is_start', B), ('start', Z), ('stop', Z)],
             'stranded': [('where_is_start', B), ('fwd', B), ('start', Z), ('stop', Z)],
             'center': [('start', Z), ('stop', Z)]}[which]
        return k.define_t(name, P, 'location', Z)
    emit(defs, 'gen_loc_unstranded', lambda: loc('unstranded', 'gen_loc_unstranded'))
    emit(defs, 'gen_loc_stranded', lambda: loc('stranded', 'gen_loc_stranded'))
    emit(defs, 'gen_loc_center', lambda: loc('center', 'gen_loc_center'))

    # ---- merged: GenomicIntervalsFull.merged and Geometry.merge_intervals (the gap / shift arithmetic)
    def mrg(tree, qual, prefix, want_assert):
        f = find_function(tree, qual)
        ren = {'chromosome.raw().astype(int)': 'c', 'merged.chromosome.raw().astype(int)': 'c',
               'go.get_offset(merged.chromosome)': 'off', 'starts': 'gstart', 'stops': 'gstop',
               'merged.start': 'mstart', 'merged.stop': 'mstop'}
        k = K(f, ren)
        se = k.assigns.get('starts')
        call = [s for s in f.body if isinstance(s, ast.Assign) and src_of(s.targets[0]) in ('starts, stops', '(starts, stops)')]
        if len(call) != 1 or src_of(call[0].value) != 'go.start_ends_from_intervals(intervals)':
            raise Unsupported('%s: starts, stops do not come from go.start_ends_from_intervals(intervals)' % qual)
        m = k.assigns.get('merged')
        if not m or len(m) != 1 or not (isinstance(m[0], ast.Call) and src_of(m[0].func) == 'merge_intervals'
                                        and len(m[0].args) == 2 and src_of(m[0].args[1]) == 'distance'):
            raise Unsupported('%s: merged is not merge_intervals(.., distance)' % qual)
        fwd = m[0].args[0]
        if not (isinstance(fwd, ast.Call) and src_of(fwd.func) == 'replace' and src_of(fwd.args[0]) == 'intervals'
                and src_of(kwarg(fwd, 'chromosome')) == 'chromosome'):
            raise Unsupported('%s: merge input is not replace(intervals, chromosome=chromosome, ..)' % qual)
        back = [n for n in ast.walk(the_return(f)) if isinstance(n, ast.Call) and src_of(n.func) == 'replace']
        if len(back) != 1 or src_of(back[0].args[0]) != 'merged':
            raise Unsupported('%s: result is not replace(merged, ..)' % qual)
        out = []
        if want_assert:
            g = guards(f.body)
            if len(g) != 1 or g[0][0] != 1:
                raise Unsupported('%s: expected exactly one assertion' % qual)
            out.append(k.define_t(prefix + 'assert', [('distance', Z)], g[0][1], B))
        out.append(k.define_t(prefix + 'fwd_start', [('gstart', Z), ('c', Z), ('distance', Z)], kwarg(fwd, 'start'), Z))
        out.append(k.define_t(prefix + 'fwd_stop', [('gstop', Z), ('c', Z), ('distance', Z)], kwarg(fwd, 'stop'), Z))
        out.append(k.define_t(prefix + 'shift', [('off', Z), ('c', Z), ('distance', Z)], 'shift', Z))
        out.append(k.define_t(prefix + 'back_start', [('mstart', Z), ('off', Z), ('c', Z), ('distance', Z)], kwarg(back[0], 'start'), Z))
        out.append(k.define_t(prefix + 'back_stop', [('mstop', Z), ('off', Z), ('c', Z), ('distance', Z)], kwarg(back[0], 'stop'), Z))
        return '\n'.join(out)
    emit(defs, 'gen_merged_shift', lambda: mrg(gi, 'GenomicIntervalsFull.merged', 'gen_merged_', True))
    emit(defs, 'gen_geo_merged_shift', lambda: mrg(geo, 'Geometry.merge_intervals', 'gen_geo_merged_', False))
    # ---- GenomeContext.with_ignored_added / Genome.with_ignored_added: which names the new context ignores, and how the
    # dict is extended.  Not arithmetic: the *shape* is extracted (operands of the set union; base of the dict; the size
    # given to added names) and compared with the model's reading in Bridge/C10.v.
    def wia():
        gc = parse('bionumpy/genomic_data/genome_context.py')
        gn = parse('bionumpy/genomic_data/genome.py')
        f = find_function(gc, 'GenomeContext.with_ignored_added')
        param = f.args.args[1].arg
        k = K(f, {})
        r = the_return(f)
        if not (isinstance(r, ast.Call) and src_of(r.func) == 'self.__class__' and len(r.args) == 2 and not r.keywords):
            raise Unsupported('with_ignored_added does not return self.__class__(dict, ignored)')

        def operands(node, depth=0):
            if depth > 6:
                raise Unsupported('ignored set: too deep')
            if isinstance(node, ast.BinOp) and isinstance(node.op, ast.BitOr):
                return operands(node.left, depth + 1) + operands(node.right, depth + 1)
            if isinstance(node, ast.Call) and src_of(node.func) in ('set', 'frozenset', 'list') and len(node.args) == 1 and not node.keywords:
                a = node.args[0]
                if isinstance(a, ast.Name) and a.id == param:
                    return [param]
                return operands(a, depth + 1)
            if isinstance(node, ast.Call) and isinstance(node.func, ast.Attribute) and node.func.attr == 'union' and not node.keywords:
                out = operands(node.func.value, depth + 1)
                for a in node.args:
                    out += operands(a, depth + 1)
                return out
            if isinstance(node, ast.Attribute) and src_of(node) == 'self._ignored':
                return ['self._ignored']
            if isinstance(node, ast.Name):
                vals = k.assigns.get(node.id)
                if not vals:
                    if node.id == param:
                        return [param]
                    raise Unsupported('ignored set: unknown name %s' % node.id)
                if len(vals) != 1 or vals[0] is None:
                    raise Unsupported('ignored set: %s is not assigned exactly once' % node.id)
                return operands(vals[0], depth + 1)
            raise Unsupported('ignored set outside the subset: %s' % src_of(node))
        ops = sorted(set(operands(r.args[1])))

        def added_items(node):
            """{name: K for name in <param>} -> K"""
            if not (isinstance(node, ast.DictComp) and len(node.generators) == 1 and not node.generators[0].ifs
                    and isinstance(node.generators[0].target, ast.Name)
                    and src_of(node.key) == node.generators[0].target.id
                    and isinstance(node.value, ast.Constant) and isinstance(node.value.value, int)):
                raise Unsupported('added names are not {name: <int> for name in ...}: %s' % src_of(node))
            it = node.generators[0].iter
            if operands(it) != [param]:
                raise Unsupported('added names do not range over the parameter: %s' % src_of(it))
            return node.value.value
        d = r.args[0]
        if not isinstance(d, ast.Name):
            raise Unsupported('dict argument is not a local name')
        vals = k.assigns.get(d.id)
        if not vals or len(vals) != 1 or vals[0] is None:
            raise Unsupported('dict %s is not assigned exactly once' % d.id)
        v = vals[0]
        if isinstance(v, ast.Dict) and len(v.keys) == 2 and v.keys == [None, None]:
            base, size = src_of(v.values[0]), added_items(v.values[1])             # {**base, **{name: 0 ...}}
        elif isinstance(v, ast.Call) and isinstance(v.func, ast.Attribute) and v.func.attr == 'copy' and not v.args:
            base = src_of(v.func.value)
            upd = [s_.value for s_ in f.body if isinstance(s_, ast.Expr) and isinstance(s_.value, ast.Call)
                   and src_of(s_.value.func) == d.id + '.update']
            if len(upd) != 1 or len(upd[0].args) != 1 or upd[0].keywords:
                raise Unsupported('expected exactly one %s.update({...})' % d.id)
            size = added_items(upd[0].args[0])
        else:
            raise Unsupported('dict construction outside the subset: %s' % src_of(v))
        g = find_function(gn, 'Genome.with_ignored_added')
        gp = g.args.args[1].arg
        if src_of(the_return(g)) != 'self.__class__(self._genome_context.with_ignored_added(%s), self._fasta_filename)' % gp:
            raise Unsupported('Genome.with_ignored_added does not hand the new context on')
        return ('Definition gen_wia_ignored_set : list string := [%s].\n' % '; '.join('"%s"%%string' % o for o in ops)
                + 'Definition gen_wia_dict_base : string := "%s"%%string.\n' % base
                + 'Definition gen_wia_added_size : Z := %d.\n' % size)
    emit(defs, 'gen_wia_ignored_set', wia)
    return ('bionumpy/genomic_data/{global_offset,genomic_intervals,geometry,genome_context,genome}.py and bionumpy/arithmetics/intervals.py', defs)

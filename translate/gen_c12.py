"""C12 — translation of the *decision rules* of the synchronisation code into Coq bool / Z functions.

The anchored code of C12 has no arithmetic; what carries the property is a handful of boolean conditions, the
order of statements around a `yield`, and which operands are compared.  Each rule is translated as a function of
*flags* (one bool per atomic test such as `name in self._ignored`), fail-closed:

* BoolRule.cond   — `and` / `or` / `not`, comparisons `in`, `not in`, `==`, `!=`, `is`, `is not` whose POSITIVE form
  (`a in b`, `a == b`, `a is b`) is listed in the rule's atom table, `np.all(x)` (per-element reading: the flag is
  "all elements satisfy x"), and whole-expression atoms (`isinstance(...)`, `hasattr(...)`).  Anything else raises
  Unsupported, the definition is emitted as `unit`, and Bridge/C12.v stops compiling.
* decision list   — a run of `if <cond>: continue | raise X(...)` statements (neutral logging / bookkeeping
  statements in between are whitelisted by their exact source text) becomes nested `if … then code else …` with
  code -1 = skip this group, >0 = the error code of Model/C12.v (exception class + a fixed fragment of the message,
  the same table harness/props/c12.py uses), 0 = go on.
* shape facts     — "the following group is pulled and checked before the current one is yielded", "the order
  generator has a filter `'_' not in key`", "get_data asks the name stream first", slice offsets of get_changes:
  emitted as bool / Z constants after matching the exact statement shapes; any other shape is Unsupported.
"""
import ast
import os

from translate.py2coq import Unsupported, find_function, src_of

REPO = os.environ.get('VERIF_REPO', '/repo')


def parse(rel):
    return ast.parse(open(os.path.join(REPO, rel)).read())


def emit(defs, name, fn):
    try:
        defs.append(fn())
    except Unsupported as e:
        defs.append('(* NOT TRANSLATED: %s *)\nDefinition %s : unit := tt.\n' % (str(e).replace('*)', '* )'), name))
    except Exception as e:
        defs.append('(* NOT TRANSLATED: %s: %s *)\nDefinition %s : unit := tt.\n' % (type(e).__name__, str(e).replace('*)', '* )'), name))


POS = {ast.In: ('in', False), ast.NotIn: ('in', True), ast.Eq: ('==', False), ast.NotEq: ('==', True),
       ast.Is: ('is', False), ast.IsNot: ('is', True)}

# exception class + message fragment -> error code of Model/C12.v (E_NOTINCL ... E_ASSERT)
ERRORS = [('GenomeError', 'not included in genome', 1), ('GenomeError', 'Sort order discrepancy', 2),
          ('GenomeError', 'was not used', 3), ('StreamError', 'already occured', 4),
          ('StreamError', 'Stream had value not present in contig order', 5)]


def raise_code(node):
    if not (isinstance(node, ast.Raise) and isinstance(node.exc, ast.Call) and isinstance(node.exc.func, ast.Name)):
        raise Unsupported('raise of something that is not ExceptionClass(...): %s' % src_of(node))
    cls = node.exc.func.id
    text = ''
    for a in node.exc.args:
        if isinstance(a, ast.Constant) and isinstance(a.value, str):
            text += a.value
        elif isinstance(a, ast.JoinedStr):
            text += ''.join(v.value for v in a.values if isinstance(v, ast.Constant) and isinstance(v.value, str))
        else:
            raise Unsupported('raise with a non-literal message: %s' % src_of(node))
    hits = [c for k, frag, c in ERRORS if k == cls and frag in text]
    if len(hits) != 1:
        raise Unsupported('cannot classify %s(%r)' % (cls, text[:60]))
    return hits[0]


class BoolRule:
    def __init__(self, atoms):
        """atoms: {python source of a positive atomic test: coq flag name}"""
        self.atoms = atoms
        self.used = []

    def flag(self, text):
        if text not in self.atoms:
            raise Unsupported('atomic test not in the rule table: %s' % text)
        v = self.atoms[text]
        if v not in self.used:
            self.used.append(v)
        return v

    def cond(self, node):
        s = src_of(node)
        if s in self.atoms:
            return self.flag(s)
        if isinstance(node, ast.BoolOp) and isinstance(node.op, (ast.And, ast.Or)):
            op = 'andb' if isinstance(node.op, ast.And) else 'orb'
            vals = [self.cond(v) for v in node.values]
            txt = vals[-1]
            for v in reversed(vals[:-1]):
                txt = '(%s %s %s)' % (op, v, txt)
            return txt
        if isinstance(node, ast.UnaryOp) and isinstance(node.op, ast.Not):
            return '(negb %s)' % self.cond(node.operand)
        if isinstance(node, ast.Compare) and len(node.ops) == 1 and type(node.ops[0]) in POS:
            word, neg = POS[type(node.ops[0])]
            f = self.flag('%s %s %s' % (src_of(node.left), word, src_of(node.comparators[0])))
            return '(negb %s)' % f if neg else f
        if isinstance(node, ast.Call) and src_of(node.func) == 'np.all' and len(node.args) == 1 and not node.keywords:
            return self.cond(node.args[0])
        raise Unsupported('condition outside the subset: %s' % s)

    def definition(self, coq_name, params, body, ty='bool'):
        for u in self.used:
            if u not in params:
                raise Unsupported('%s reads flag %s which is not a parameter' % (coq_name, u))
        return 'Definition %s %s : %s :=\n  %s.\n' % (coq_name, ' '.join('(%s : bool)' % p for p in params), ty, body)


def decision_list(rule, stmts, neutral):
    """leading `if c: continue|raise` statements -> nested ifs; stops at the first statement that is neither such an
    `if` nor whitelisted as neutral."""
    clauses = []
    for st in stmts:
        if isinstance(st, ast.If) and not st.orelse and len(st.body) >= 1 and isinstance(st.body[-1], (ast.Continue, ast.Raise)):
            for b in st.body[:-1]:
                if src_of(b) not in neutral:
                    raise Unsupported('statement before continue/raise is not neutral: %s' % src_of(b))
            last = st.body[-1]
            code = -1 if isinstance(last, ast.Continue) else raise_code(last)
            clauses.append((rule.cond(st.test), code))
        elif src_of(st) in neutral:
            continue
        else:
            break
    if not clauses:
        raise Unsupported('no guard clauses found')
    txt = '0'
    for c, code in reversed(clauses):
        txt = 'if %s then %s else %s' % (c, '(%d)' % code if code < 0 else str(code), txt)
    return txt, len(clauses)


def only(nodes, what):
    nodes = list(nodes)
    if len(nodes) != 1:
        raise Unsupported('expected exactly one %s, found %d' % (what, len(nodes)))
    return nodes[0]


def is_yield_stmt(st):
    return isinstance(st, ast.Expr) and isinstance(st.value, ast.Yield)


def gen():
    defs = ['From Coq Require Import Bool.\n']
    gc = parse('bionumpy/genomic_data/genome_context.py')
    ms = parse('bionumpy/streams/multistream.py')
    lj = parse('bionumpy/streams/left_join.py')
    gb = parse('bionumpy/streams/groupby_func.py')
    gt = parse('bionumpy/genomic_data/genomic_track.py')

    # ---- GenomeContext: which names are ignored / included, and the order that is walked
    def ignore_underscores():
        f = find_function(gc, 'ignore_underscores')
        r = only([n for n in ast.walk(f) if isinstance(n, ast.Return)], 'return')
        rule = BoolRule({"'_' in name": 'has_us'})
        return rule.definition('gen_filter_ignore_underscores', ['has_us'], rule.cond(r.value))
    emit(defs, 'gen_filter_ignore_underscores', ignore_underscores)

    def is_ignored():
        f = find_function(gc, 'GenomeContext.from_dict')
        comp = only([n.value for n in ast.walk(f) if isinstance(n, ast.Assign) and src_of(n.targets[0]) == 'ignored_keys'], 'ignored_keys =')
        if not (isinstance(comp, ast.SetComp) and len(comp.generators) == 1 and src_of(comp.generators[0].iter) == 'chrom_size_dict'
                and src_of(comp.elt) == src_of(comp.generators[0].target) == 'key' and len(comp.generators[0].ifs) == 1):
            raise Unsupported('ignored_keys is not {key for key in chrom_size_dict if <test>}')
        rule = BoolRule({'filter_function(key)': 'passes'})
        return rule.definition('gen_ctx_is_ignored', ['passes'], rule.cond(comp.generators[0].ifs[0]))
    emit(defs, 'gen_ctx_is_ignored', is_ignored)

    def is_included():
        f = find_function(gc, 'GenomeContext.__init__')
        comp = only([n.value for n in ast.walk(f) if isinstance(n, ast.Assign) and src_of(n.targets[0]) == 'self._included'], 'self._included =')
        if not (isinstance(comp, ast.ListComp) and len(comp.generators) == 1 and src_of(comp.generators[0].iter) == 'chrom_size_dict'
                and src_of(comp.elt) == src_of(comp.generators[0].target) == 'chrom' and len(comp.generators[0].ifs) == 1):
            raise Unsupported('self._included is not [chrom for chrom in chrom_size_dict if <test>]')
        rule = BoolRule({'chrom in self._ignored': 'in_ignored'})
        return rule.definition('gen_ctx_is_included', ['in_ignored'], rule.cond(comp.generators[0].ifs[0]))
    emit(defs, 'gen_ctx_is_included', is_included)

    def order_filter():
        f = find_function(gc, 'GenomeContext.chromosome_order')
        r = only([n for n in ast.walk(f) if isinstance(n, ast.Return)], 'return')
        g = r.value
        if not (isinstance(g, ast.GeneratorExp) and len(g.generators) == 1 and src_of(g.generators[0].iter) == 'self._chrom_size_dict'
                and src_of(g.elt) == src_of(g.generators[0].target) == 'key'):
            raise Unsupported('chromosome_order is not (key for key in self._chrom_size_dict [if ...])')
        ifs = g.generators[0].ifs
        if len(ifs) == 0:
            return 'Definition gen_order_drops_underscore_names : bool := false.\n'
        if len(ifs) == 1 and src_of(ifs[0]) == "'_' not in key":
            return 'Definition gen_order_drops_underscore_names : bool := true.\n'
        raise Unsupported('unknown filter in chromosome_order: %s' % src_of(g))
    emit(defs, 'gen_order_drops_underscore_names', order_filter)

    # ---- _included_groups: skip / raise / yield
    def included_action():
        f = find_function(gc, 'GenomeContext._included_groups')
        loop = only([n for n in f.body if isinstance(n, ast.For)], 'for loop')
        if src_of(loop.target).strip('()') != 'name, group' or not is_yield_stmt(loop.body[-1]) or src_of(loop.body[-1].value.value).strip('()') != 'name, group':
            raise Unsupported('_included_groups does not end with `yield name, group`')
        rule = BoolRule({'name in self._ignored': 'in_ignored', 'name in self._included': 'in_included'})
        txt, k = decision_list(rule, loop.body[:-1], neutral=set())
        if k != len(loop.body) - 1:
            raise Unsupported('_included_groups has statements that are not guard clauses')
        return rule.definition('gen_included_action', ['in_ignored', 'in_included'], txt, 'Z')
    emit(defs, 'gen_included_action', included_action)

    # ---- iter_chromosomes
    NEUTRAL_WALK = {'seen_group.append(next_name)', 'group = next_group',
                    "logger.debug(f'Yielding data for {name}')", "logger.debug(f'Yielding empty data for {name}')"}

    def walk_parts():
        f = find_function(gc, 'GenomeContext.iter_chromosomes')
        loop = only([n for n in f.body if isinstance(n, ast.For) and src_of(n.target) == 'name' and src_of(n.iter) == 'real_order'], 'for name in real_order')
        br = only([n for n in loop.body if isinstance(n, ast.If)], 'if in the walk loop')
        return f, loop, br

    def walk_match():
        f, loop, br = walk_parts()
        rule = BoolRule({'name == next_name': 'is_pending'})
        return rule.definition('gen_walk_is_match', ['is_pending'], rule.cond(br.test))
    emit(defs, 'gen_walk_is_match', walk_match)

    def walk_order_error():
        f, loop, br = walk_parts()
        guard = only([n for n in br.body if isinstance(n, ast.If)], 'guard in the matching branch')
        if not (len(guard.body) == 1 and isinstance(guard.body[0], ast.Raise) and not guard.orelse and raise_code(guard.body[0]) == 2):
            raise Unsupported('the guard in the matching branch does not raise the sort-order error')
        rule = BoolRule({'next_name in seen': 'next_in_seen', 'next_name == name': 'next_is_current'})
        return rule.definition('gen_walk_order_error', ['next_in_seen', 'next_is_current'], rule.cond(guard.test))
    emit(defs, 'gen_walk_order_error', walk_order_error)

    def walk_checks_first():
        f, loop, br = walk_parts()
        pos = {}
        for i, st in enumerate(br.body):
            s = src_of(st)
            if s == 'next_name, next_group = next(grouped, (None, None))':
                pos.setdefault('pull', []).append(i)
            elif isinstance(st, ast.If):
                pos.setdefault('guard', []).append(i)
            elif is_yield_stmt(st):
                pos.setdefault('yield', []).append(i)
            elif s not in NEUTRAL_WALK:
                raise Unsupported('unknown statement in the matching branch: %s' % s)
        if sorted(pos) != ['guard', 'pull', 'yield'] or any(len(v) != 1 for v in pos.values()):
            raise Unsupported('matching branch is not {pull, guard, yield} once each')
        p, g, y = pos['pull'][0], pos['guard'][0], pos['yield'][0]
        if not p < g:
            raise Unsupported('the guard does not follow the pull')
        # the empty branch must be a plain yield of the empty table
        if not (len(br.orelse) >= 1 and is_yield_stmt(br.orelse[-1]) and src_of(br.orelse[-1].value.value) == 'dataclass.empty()'
                and all(src_of(s) in NEUTRAL_WALK for s in br.orelse[:-1])):
            raise Unsupported('the other branch does not yield dataclass.empty()')
        which = 'group' if g < y else 'next_group'
        if src_of(br.body[y].value.value) != which:
            raise Unsupported('the matching branch yields %s' % src_of(br.body[y].value.value))
        return 'Definition gen_walk_checks_before_yield : bool := %s.\n' % ('true' if g < y else 'false')
    emit(defs, 'gen_walk_checks_before_yield', walk_checks_first)

    def walk_leftover():
        f, loop, br = walk_parts()
        i = f.body.index(loop)
        tail = f.body[i + 1:]
        if not (len(tail) == 1 and isinstance(tail[0], ast.If) and not tail[0].orelse and len(tail[0].body) == 1
                and isinstance(tail[0].body[0], ast.Raise)):
            raise Unsupported('the walk is not followed by exactly one `if …: raise`')
        rule = BoolRule({'next_name is None': 'pending_is_none'})
        return rule.definition('gen_walk_leftover_error', ['pending_is_none'], rule.cond(tail[0].test))
    emit(defs, 'gen_walk_leftover_error', walk_leftover)

    # ---- SynchedStream.__iter__
    # Three shapes are recognised (anything else -> unit):
    #   0  `for name, data in grouped:` with the two guards inline at the top of the body (the code before fix-4)
    #   1  fix-3's `while next_item is not None:` loop (never committed)
    #   2  fix-4: `for (name, data), following in _with_following(grouped):`, guards in `self._check_name(name, seen)`
    #      at the top of the body, and the same call on the following group's key-mapped name before `yield data`
    NEUTRAL_SYNC = {'logger.debug(f\'handling data for {name}\')', 'sys.stdout.flush()', 'sys.stderr.flush()',
                    'name = self._key_func(name)', 'used_names.append(name)'}
    CHECK_CALL = 'self._check_name(name, seen_contig_names)'
    FOLLOWING_CALL = 'self._check_name(self._key_func(following[0]), seen_contig_names)'

    def sync_loop():
        f = find_function(ms, 'SynchedStream.__iter__')
        loops = [n for n in f.body if isinstance(n, ast.For)
                 and (src_of(n.target), src_of(n.iter)) in ((('(name, data)'), 'grouped'), ('name, data', 'grouped'),
                                                          ('((name, data), following)', '_with_following(grouped)'),
                                                          ('(name, data), following', '_with_following(grouped)'))]
        loop = only(loops, 'for … in grouped / _with_following(grouped)')
        g = only([n for n in f.body if isinstance(n, ast.Assign) and src_of(n.targets[0]) == 'grouped'], 'grouped =')
        if src_of(g.value) != 'groupby(self._stream, self._grouping_attribute)':
            raise Unsupported('grouped is not groupby(self._stream, self._grouping_attribute)')
        return f, loop, ('following' in src_of(loop.target))

    def guard_statements():
        """the statements that hold the two guards on `name`, and what precedes the skipping loop"""
        f, loop, fol = sync_loop()
        if not fol:
            return loop.body, loop.body
        # the body must reach the call of _check_name through neutral statements only, and the key function must
        # have been applied to the name before
        texts = [src_of(st) for st in loop.body]
        if CHECK_CALL not in texts:
            raise Unsupported('the loop body does not call %s' % CHECK_CALL)
        i = texts.index(CHECK_CALL)
        if any(t not in NEUTRAL_SYNC for t in texts[:i]) or 'name = self._key_func(name)' not in texts[:i]:
            raise Unsupported('statements before the guard call are not neutral / the key function is not applied first')
        if not isinstance(loop.body[i + 1], ast.While):
            raise Unsupported('the guard call is not directly followed by the skipping loop')
        cn = find_function(ms, 'SynchedStream._check_name')
        if [a.arg for a in cn.args.args] != ['self', 'name', 'seen_contig_names']:
            raise Unsupported('_check_name does not take (self, name, seen_contig_names)')
        return cn.body, loop.body

    def sync_check():
        guards, body = guard_statements()
        rule = BoolRule({'name in seen_contig_names': 'in_seen', 'name in self._contig_order': 'in_order'})
        txt, k = decision_list(rule, guards, NEUTRAL_SYNC)
        if k != 2:
            raise Unsupported('expected the two guards (already seen / not in contig order), found %d' % k)
        if guards is not body and k != len(guards):
            raise Unsupported('_check_name has statements that are not guard clauses')
        return rule.definition('gen_sync_check', ['in_seen', 'in_order'], txt, 'Z')
    emit(defs, 'gen_sync_check', sync_check)

    def sync_skip():
        f, loop, fol = sync_loop()
        w = only([n for n in loop.body if isinstance(n, ast.While)], 'while in the group loop')
        rule = BoolRule({'cur_contig_idx < len(self._contig_order)': 'idx_in_range',
                         'name == self._contig_order[cur_contig_idx]': 'is_current'})
        return rule.definition('gen_sync_keeps_skipping', ['idx_in_range', 'is_current'], rule.cond(w.test))
    emit(defs, 'gen_sync_keeps_skipping', sync_skip)

    def sync_shape():
        f = find_function(ms, 'SynchedStream.__iter__')
        wl = [n for n in f.body if isinstance(n, ast.While) and src_of(n.test) == 'next_item is not None']
        if len(wl) == 1 and not [n for n in f.body if isinstance(n, ast.For) and 'grouped' in src_of(n.iter)]:
            body = wl[0].body
            idx = [i for i, st in enumerate(body) if src_of(st) == 'next_item = self._checked_item(next(grouped, None), seen_contig_names)']
            yi = [i for i, st in enumerate(body) if is_yield_stmt(st) and src_of(st.value.value) == 'data']
            if len(idx) == 1 and len(yi) == 1 and idx[0] < yi[0]:
                return 1
            raise Unsupported('while-loop shape without the look-ahead before `yield data`')
        f, loop, fol = sync_loop()
        ys = [n for n in ast.walk(loop) if isinstance(n, ast.Yield) and src_of(n.value) == 'data']
        only(ys, '`yield data` in the group loop')
        br = only([n for n in loop.body if isinstance(n, ast.If) and src_of(n.test) == 'name == self._contig_order[cur_contig_idx]'],
                  'if name == self._contig_order[cur_contig_idx]')
        texts = [src_of(st) for st in br.body]
        if not fol:
            if texts != ['yield data', 'seen_contig_names.add(self._contig_order[cur_contig_idx])', 'cur_contig_idx += 1']:
                raise Unsupported('matching branch of the plain for-loop is not yield / add / advance: %s' % texts)
            return 0
        if len(br.body) != 4 or texts[:2] != ['seen_contig_names.add(self._contig_order[cur_contig_idx])', 'cur_contig_idx += 1'] \
                or texts[3] != 'yield data':
            raise Unsupported('matching branch is not add / advance / check following / yield data: %s' % texts)
        return 2

    def sync_shape_def():
        return 'Definition gen_sync_shape : Z := %d.\n' % sync_shape()
    emit(defs, 'gen_sync_shape', sync_shape_def)

    def sync_checks_first():
        return 'Definition gen_sync_checks_before_yield : bool := %s.\n' % ('true' if sync_shape() in (1, 2) else 'false')
    emit(defs, 'gen_sync_checks_before_yield', sync_checks_first)

    def sync_following_check():
        """what happens between advancing the cursor and `yield data`: (has_following, in_seen, in_order) -> error code / 0"""
        shape = sync_shape()
        rule = BoolRule({'name in seen_contig_names': 'in_seen', 'name in self._contig_order': 'in_order',
                         'following is None': 'no_following'})
        if shape != 2:
            return rule.definition('gen_sync_following_check', ['has_following', 'in_seen', 'in_order'], '0', 'Z')
        guards, body = guard_statements()
        f, loop, fol = sync_loop()
        br = only([n for n in loop.body if isinstance(n, ast.If) and src_of(n.test) == 'name == self._contig_order[cur_contig_idx]'], 'matching branch')
        g = br.body[2]
        if not (isinstance(g, ast.If) and not g.orelse and [src_of(x) for x in g.body] == [FOLLOWING_CALL]):
            raise Unsupported('the statement before `yield data` is not `if …: %s`' % FOLLOWING_CALL)
        cond = rule.cond(g.test)            # in terms of no_following
        txt, k = decision_list(rule, guards, NEUTRAL_SYNC)
        if k != 2 or k != len(guards):
            raise Unsupported('_check_name is not exactly the two guards')
        cond = cond.replace('no_following', '(negb has_following)')
        rule.used = [u for u in rule.used if u != 'no_following']
        return rule.definition('gen_sync_following_check', ['has_following', 'in_seen', 'in_order'],
                               'if %s then (%s) else 0' % (cond, txt), 'Z')
    emit(defs, 'gen_sync_following_check', sync_following_check)

    def with_following():
        """_with_following(iterable): every item once, in order, paired with the item after it (None after the last)"""
        if sync_shape() != 2:
            return 'Definition gen_with_following_pairs : bool := true.\n'      # not used by this shape
        f = find_function(ms, '_with_following')
        body = [st for st in f.body if not (isinstance(st, ast.Expr) and isinstance(st.value, ast.Constant))]   # docstring
        if [a.arg for a in f.args.args] != ['iterable'] or len(body) != 3:
            raise Unsupported('_with_following is not (iterable) with three statements')
        w = body[2]
        if not ([src_of(body[0]), src_of(body[1])] == ['iterator = iter(iterable)', 'item = next(iterator, None)']
                and isinstance(w, ast.While) and src_of(w.test) == 'item is not None' and not w.orelse
                and [src_of(x) for x in w.body] == ['following = next(iterator, None)', 'yield (item, following)', 'item = following']):
            raise Unsupported('_with_following is not the one-item look-ahead loop')
        return 'Definition gen_with_following_pairs : bool := true.\n'
    emit(defs, 'gen_with_following_pairs', with_following)

    # ---- left_join
    def lj_default():
        f = find_function(lj, 'left_join')
        loop = only([n for n in f.body if isinstance(n, ast.For)], 'for loop')
        br = loop.body[0]
        if not (isinstance(br, ast.If) and not br.orelse and len(br.body) == 2 and is_yield_stmt(br.body[0]) and isinstance(br.body[1], ast.Continue)
                and src_of(br.body[0].value.value) == '(name_left, data_left, default_value)'):
            raise Unsupported('left_join does not start with `if …: yield (name_left, data_left, default_value); continue`')
        rest = [src_of(s) for s in loop.body[1:]]
        if rest != ['yield (name_left, data_left, data_right)', 'name_right, data_right = next(grouped_right, (None, None))']:
            raise Unsupported('left_join matching case is not yield + advance: %s' % rest)
        rule = BoolRule({'name_left == name_right': 'same_name'})
        return rule.definition('gen_lj_gets_default', ['same_name'], rule.cond(br.test))
    emit(defs, 'gen_lj_gets_default', lj_default)

    def lj_final():
        f = find_function(lj, 'left_join')
        a = only([n for n in f.body if isinstance(n, ast.Assert)], 'assert')
        rule = BoolRule({'name_right is None': 'name_none', 'data_right is None': 'data_none'})
        return rule.definition('gen_lj_final_ok', ['name_none', 'data_none'], rule.cond(a.test))
    emit(defs, 'gen_lj_final_ok', lj_final)

    # ---- groupby: where a group boundary falls, the fast path, the join key
    def changes():
        f = find_function(gb, 'get_changes')
        br = None
        for n in ast.walk(f):
            if isinstance(n, ast.If) and src_of(n.test) == 'isinstance(array, StringArray)':
                br = n
        if br is None or len(br.body) != 1 or not isinstance(br.body[0], ast.Return):
            raise Unsupported('no single-return StringArray branch in get_changes')
        e = br.body[0].value
        # np.flatnonzero(<left>[a:] != <right>[:b]) + shift, both operands slices of the WHOLE raw key array
        if not (isinstance(e, ast.BinOp) and isinstance(e.op, ast.Add) and isinstance(e.right, ast.Constant) and isinstance(e.right.value, int)
                and isinstance(e.left, ast.Call) and src_of(e.left.func) == 'np.flatnonzero' and len(e.left.args) == 1):
            raise Unsupported('StringArray changes are not np.flatnonzero(...) + k: %s' % src_of(e))
        c = e.left.args[0]
        if not (isinstance(c, ast.Compare) and len(c.ops) == 1 and isinstance(c.ops[0], (ast.NotEq, ast.Eq))):
            raise Unsupported('not a single (in)equality: %s' % src_of(c))

        def sl(x):
            if not (isinstance(x, ast.Subscript) and src_of(x.value) == 'array.raw()' and isinstance(x.slice, ast.Slice) and x.slice.step is None):
                raise Unsupported('operand is not a plain slice of array.raw() (the whole key): %s' % src_of(x))
            lo, hi = x.slice.lower, x.slice.upper
            return (0 if lo is None else ast.literal_eval(lo)), (0 if hi is None else ast.literal_eval(hi))
        (l_lo, l_hi), (r_lo, r_hi) = sl(c.left), sl(c.comparators[0])
        rule = BoolRule({})
        ne = isinstance(c.ops[0], ast.NotEq)
        return ('Definition gen_change_at (whole_keys_equal : bool) : bool :=\n  %s.\n' % ('(negb whole_keys_equal)' if ne else 'whole_keys_equal')
                + 'Definition gen_change_offsets : Z * Z * Z * Z * Z := (%d, %d, %d, %d, %d).\n' % (l_lo, l_hi, r_lo, r_hi, e.right.value))
    emit(defs, 'gen_change_at', changes)

    def fastpath():
        f = find_function(gb, 'groupby')
        ifs = [n for n in f.body if isinstance(n, ast.If) and 'keys[-1]' in src_of(n.test)]
        br = only(ifs, 'fast-path if')
        r = br.body[0]
        if not (len(br.body) == 1 and isinstance(r, ast.Return) and 'data[start:]) for start in [0]' in src_of(r) and 'key(keys[start])' in src_of(r)):
            raise Unsupported('fast path does not return the whole chunk under the first key')
        rule = BoolRule({'isinstance(keys, EncodedArray)': 'is_encoded', 'hasattr(keys, \'lengths\')': 'has_lengths',
                         'keys.lengths[-1] == keys.lengths[0]': 'first_last_same_length', 'keys[-1] == keys[0]': 'first_last_equal'})
        return rule.definition('gen_fast_path', ['is_encoded', 'has_lengths', 'first_last_same_length', 'first_last_equal'], rule.cond(br.test))
    emit(defs, 'gen_fast_path', fastpath)

    def join_key():
        f = find_function(gb, 'join_groupbys')
        call = only([n for n in ast.walk(f) if isinstance(n, ast.Call) and src_of(n.func) == 'itertools.groupby'], 'itertools.groupby call')
        if not (len(call.args) == 2 and src_of(call.args[0]) == 'itertools.chain.from_iterable(grouped_generator)'
                and isinstance(call.args[1], ast.Lambda) and isinstance(call.args[1].body, ast.Subscript)
                and src_of(call.args[1].body.value) == call.args[1].args.args[0].arg and isinstance(call.args[1].body.slice, ast.Constant)):
            raise Unsupported('join_groupbys does not group the chained per-chunk groups by an element index')
        inner = only([n for n in ast.walk(f) if isinstance(n, ast.ListComp)], 'list comprehension in f')
        if not (isinstance(inner.elt, ast.Subscript) and isinstance(inner.elt.slice, ast.Constant) and src_of(inner.generators[0].iter) == 'groups'):
            raise Unsupported('f does not collect an element index of every group')
        if not any(isinstance(n, ast.Return) and src_of(n.value) == 'np.concatenate(groups_)' for n in ast.walk(f)):
            raise Unsupported('f does not concatenate')
        return 'Definition gen_join_key_and_payload_index : Z * Z := (%d, %d).\n' % (call.args[1].body.slice.value, inner.elt.slice.value)
    emit(defs, 'gen_join_key_and_payload_index', join_key)

    # ---- consumer: get_data asks the name stream first
    def get_data_order():
        f = find_function(gt, 'GenomicArrayNode.get_data')
        r = only([n for n in ast.walk(f) if isinstance(n, ast.Return)], 'return')
        c = r.value
        if not (isinstance(c, ast.Call) and src_of(c.func) == 'ComputationNode' and len(c.args) == 2 and isinstance(c.args[1], ast.List)):
            raise Unsupported('get_data is not ComputationNode(f, [...])')
        names = [src_of(x) for x in c.args[1].elts]
        if names == ['self._chrom_name_node', 'self._run_length_node']:
            return 'Definition gen_get_data_names_first : bool := true.\n'
        if names == ['self._run_length_node', 'self._chrom_name_node']:
            return 'Definition gen_get_data_names_first : bool := false.\n'
        raise Unsupported('unexpected get_data arguments: %s' % names)
    emit(defs, 'gen_get_data_names_first', get_data_order)

    # ---- the pull machine: computation_graph.py, the order in which each public call asks its leaves, zip
    cg = parse('bionumpy/computation_graph.py')
    gi = parse('bionumpy/genomic_data/genomic_intervals.py')
    dec = parse('bionumpy/streams/decorators.py')
    sm = parse('bionumpy/arithmetics/similarity_measures.py')

    def assigned(func, target_src):
        return only([n.value for n in ast.walk(func) if isinstance(n, ast.Assign) and len(n.targets) == 1
                     and src_of(n.targets[0]) == target_src], target_src + ' =')

    def cg_get_iter():
        f = find_function(cg, 'Node.get_iter')
        loop = only([n for n in f.body if isinstance(n, ast.For)], 'for in get_iter')
        if not (src_of(loop.target) == 'i' and src_of(loop.iter) == 'count()' and len(loop.body) == 1 and isinstance(loop.body[0], ast.Try)):
            raise Unsupported('get_iter is not `for i in count(): try: ...`')
        t = loop.body[0]
        if not (len(t.body) == 1 and is_yield_stmt(t.body[0]) and src_of(t.body[0].value.value) == 'self._get_buffer(i)'
                and len(t.handlers) == 1 and src_of(t.handlers[0].type) == 'StopIteration' and len(t.handlers[0].body) == 1
                and isinstance(t.handlers[0].body[0], ast.Break) and not t.orelse and not t.finalbody):
            raise Unsupported('get_iter does not yield self._get_buffer(i) until StopIteration')
        return 'Definition gen_cg_get_iter_stops_on_stopiteration : bool := true.\n'
    emit(defs, 'gen_cg_get_iter_stops_on_stopiteration', cg_get_iter)

    def cg_args_order():
        f = find_function(cg, 'ComputationNode._get_buffer')
        v = assigned(f, 'args')
        if not (isinstance(v, ast.ListComp) and len(v.generators) == 1 and src_of(v.generators[0].iter) == 'self._args' and not v.generators[0].ifs
                and src_of(v.elt) == 'a._get_buffer(i) if isinstance(a, Node) else a' and src_of(v.generators[0].target) == 'a'):
            raise Unsupported('args are not fetched by a list comprehension over self._args')
        # the fetch must not sit inside a try (a StopIteration of an argument has to reach get_iter)
        for n in ast.walk(f):
            if isinstance(n, ast.Try) and any(isinstance(m, ast.Assign) and src_of(m.targets[0]) == 'args' for m in ast.walk(n)):
                raise Unsupported('argument fetch is inside a try')
        return 'Definition gen_cg_args_in_list_order : bool := true.\n'
    emit(defs, 'gen_cg_args_in_list_order', cg_args_order)

    def cg_streamnode():
        init = find_function(cg, 'StreamNode.__init__')
        if src_of(init.body[-1]) != 'self._get_buffer(0)':
            raise Unsupported('StreamNode.__init__ does not end with self._get_buffer(0)')
        gbuf = find_function(cg, 'StreamNode._get_buffer')
        guard = only([n for n in gbuf.body if isinstance(n, ast.If)], 'if in StreamNode._get_buffer')
        if not (src_of(guard.test) == 'i > self._buffer_index' and src_of(guard.body[0]) == 'self._current_buffer = next(self._stream)'):
            raise Unsupported('StreamNode._get_buffer does not advance with next(self._stream)')
        return 'Definition gen_cg_streamnode_pulls_first_eagerly : bool := true.\n'
    emit(defs, 'gen_cg_streamnode_pulls_first_eagerly', cg_streamnode)

    def leaf_codes():
        """source text of a node expression -> code of the leaf it is (0 names, 1 data, 2 sizes), checked at its definition"""
        codes = {}
        a_init = find_function(gt, 'GenomicArrayNode.__init__')
        if src_of(assigned(a_init, 'self._chrom_name_node')) != 'StreamNode(iter(genome_context.chrom_sizes.keys()))':
            raise Unsupported('_chrom_name_node is not the stream of chrom_sizes keys')
        codes['self._chrom_name_node'] = [0]
        s_init = find_function(gi, 'GenomicIntervalsStreamed.__init__')
        if src_of(assigned(s_init, 'self._chrom_size_node')) != 'StreamNode(iter(self._genome_context.chrom_sizes.values()))':
            raise Unsupported('_chrom_size_node is not the stream of chrom_sizes values')
        if src_of(assigned(s_init, 'self._intervals_node')) != 'intervals_node':
            raise Unsupported('_intervals_node is not the constructor argument')
        codes['self._chrom_size_node'] = [2]
        codes['self._intervals_node'] = [1]
        codes['intervals_node'] = [1]
        return codes

    def node_args(call):
        if not (isinstance(call, ast.Call) and src_of(call.func) == 'ComputationNode' and len(call.args) == 2 and isinstance(call.args[1], ast.List)):
            raise Unsupported('not ComputationNode(f, [...]): %s' % src_of(call))
        return call.args[1].elts

    def order_of(elts, codes):
        out = []
        for x in elts:
            if isinstance(x, ast.Constant):
                continue                      # a non-node argument ('start') is passed through
            sx = src_of(x)
            if sx not in codes:
                raise Unsupported('unknown leaf %s' % sx)
            out += codes[sx]
        return out

    def zlist(name, l):
        return 'Definition %s : list Z := %s.\n' % (name, '(' + ' :: '.join([str(x) for x in l] + ['nil']) + ')')

    def pileup_order(codes):
        f = find_function(gi, 'GenomicIntervalsStreamed.get_pileup')
        r = only([n for n in ast.walk(f) if isinstance(n, ast.Return)], 'return')
        if not (isinstance(r.value, ast.Call) and src_of(r.value.func) == 'GenomicArrayNode' and len(r.value.args) == 2):
            raise Unsupported('get_pileup does not return GenomicArrayNode(node, context)')
        return order_of(node_args(r.value.args[0]), codes)

    def track_order():
        f = find_function(gt, 'GenomicArray.from_bedgraph')
        if src_of(assigned(f, 'filled')) != 'genome_context.iter_chromosomes(bedgraph, BedGraph)' or src_of(assigned(f, 'interval_stream')) != 'StreamNode(filled)':
            raise Unsupported('from_bedgraph does not stream iter_chromosomes(bedgraph, BedGraph)')
        rets = [n for n in ast.walk(f) if isinstance(n, ast.Return) and 'GenomicArrayNode' in src_of(n)]
        r = only(rets, 'streamed return of from_bedgraph')
        codes = {'interval_stream': [1], 'StreamNode(iter(genome_context.chrom_sizes.values()))': [2]}
        return order_of(node_args(r.value.args[0]), codes)

    def pull_orders():
        codes = leaf_codes()
        run_length = pileup_order(codes)
        if track_order() != run_length:
            raise Unsupported('get_track and get_pileup ask their leaves in different orders')
        a_init = find_function(gt, 'GenomicArrayNode.__init__')
        if src_of(assigned(a_init, 'self._run_length_node')) != 'run_length_node':
            raise Unsupported('_run_length_node is not the constructor argument')
        codes = dict(codes)
        codes['self._run_length_node'] = run_length
        gd = find_function(gt, 'GenomicArrayNode.get_data')
        r = only([n for n in ast.walk(gd) if isinstance(n, ast.Return)], 'return of get_data')
        get_data = order_of(node_args(r.value), codes)
        sm_f = find_function(gt, 'GenomicArrayNode.sum')
        r = only([n for n in ast.walk(sm_f) if isinstance(n, ast.Return)], 'return of sum')
        if src_of(r.value) != 'np.sum(self._run_length_node)':
            raise Unsupported('GenomicArrayNode.sum is not np.sum(self._run_length_node)')
        s_init = find_function(gi, 'GenomicIntervalsStreamed.__init__')
        field = order_of(node_args(assigned(s_init, 'self._start')), codes)
        if order_of(node_args(assigned(s_init, 'self._stop')), codes) != field:
            raise Unsupported('start and stop differ')
        return (zlist('gen_pull_order_get_data', get_data) + zlist('gen_pull_order_reduce', run_length)
                + zlist('gen_pull_order_field', field))
    emit(defs, 'gen_pull_order_get_data', pull_orders)

    def zip_order():
        f = find_function(dec, 'streamable._args_stream')
        if src_of(assigned(f, 'streams')) != 'tuple((args[i] for i in stream_indices))':
            raise Unsupported('streams are not taken in index order: %s' % src_of(assigned(f, 'streams')))
        loop = only([n for n in f.body if isinstance(n, ast.For)], 'for in _args_stream')
        if src_of(loop.iter) != 'zip(*streams)':
            raise Unsupported('_args_stream does not zip the streams')
        nf = None
        for n in ast.walk(find_function(dec, 'streamable.__call__')):
            if isinstance(n, ast.FunctionDef) and n.name == 'new_func':
                nf = n
        if nf is None or src_of(assigned(nf, 'stream_args')) != '[i for i, arg in enumerate(args) if isinstance(arg, (BnpStream, types.GeneratorType))]':
            raise Unsupported('stream indices are not enumerated in argument order')
        orders = []
        for fn in ('forbes', 'jaccard'):
            g = find_function(sm, fn)
            if src_of(assigned(g, 'ms')) != 'MultiStream(chromosome_sizes, a=intervals_a, b=intervals_b)':
                raise Unsupported('%s does not build MultiStream(chromosome_sizes, a=…, b=…)' % fn)
            call = only([n for n in ast.walk(g) if isinstance(n, ast.Call) and src_of(n.func) == 'get_contingency_table'], 'get_contingency_table call')
            m = {'ms.a': 3, 'ms.b': 1, 'ms.lengths': 2}
            srcs = [src_of(a) for a in call.args]
            if any(x not in m for x in srcs) or call.keywords:
                raise Unsupported('%s passes %s' % (fn, srcs))
            orders.append([m[x] for x in srcs])
        if orders[0] != orders[1]:
            raise Unsupported('forbes and jaccard differ')
        return 'Definition gen_streamable_zips_in_arg_order : bool := true.\n' + zlist('gen_pull_order_zip', orders[0])
    emit(defs, 'gen_streamable_zips_in_arg_order', zip_order)

    def ms_table():
        f = find_function(ms, 'MultiStream.__init__')
        loop = only([n for n in ast.walk(f) if isinstance(n, ast.For) and src_of(n.iter) == 'kwargs.items()'], 'for over kwargs')
        srcs = [src_of(st) for st in loop.body]
        if len(loop.body) != 2 or not isinstance(loop.body[0], ast.If) or not isinstance(loop.body[1], ast.If):
            raise Unsupported('MultiStream.__init__ loop body is not the two ifs')
        first = loop.body[0]
        if not (src_of(first.test) == 'isinstance(value, BNPDataClass)' and not first.orelse and len(first.body) == 1
                and src_of(first.body[0]) == 'value = NpDataclassStream([value], value.__class__)'):
            raise Unsupported('an in-memory table is not wrapped as NpDataclassStream([value], value.__class__)')
        second = loop.body[1]
        if not (src_of(second.test) == 'isinstance(value, BnpStream)' and len(second.body) == 1
                and src_of(second.body[0]) == 'self.__dict__[keyword] = SynchedStream(value, sequence_names)'):
            raise Unsupported('a stream is not synchronised by SynchedStream(value, sequence_names)')
        return 'Definition gen_ms_table_is_one_chunk_stream : bool := true.\n'
    emit(defs, 'gen_ms_table_is_one_chunk_stream', ms_table)

    def borders_from_neighbours():
        f = find_function(gb, 'groupby')
        vals = [n.value for n in ast.walk(f) if isinstance(n, ast.Assign) and len(n.targets) == 1 and src_of(n.targets[0]) == 'changes']
        if [src_of(v) for v in vals] != ['get_changes(keys)', 'np.append(np.insert(changes, 0, 0), len(data))']:
            raise Unsupported('group borders are not get_changes(keys) framed by 0 and len(data): %s' % [src_of(v) for v in vals])
        gch = find_function(gb, 'get_changes')
        first = gch.body[0]
        if not (isinstance(first, ast.If) and src_of(first.test) == 'isinstance(array, EncodedArray) and isinstance(array.encoding, StringEncoding)'
                and len(first.body) == 1 and src_of(first.body[0]) == 'return np.flatnonzero(array.raw()[1:] != array.raw()[:-1]) + 1'):
            raise Unsupported('StringEncoding-coded keys are not compared row by row with their neighbour')
        return 'Definition gen_borders_compare_neighbouring_rows : bool := true.\n'
    emit(defs, 'gen_borders_compare_neighbouring_rows', borders_from_neighbours)

    def derive_functional():
        f = find_function(gc, 'GenomeContext.with_ignored_added')
        body = [st for st in f.body if not (isinstance(st, ast.Expr) and isinstance(st.value, ast.Constant))]   # drop the docstring
        srcs = [src_of(st) for st in body]
        if srcs != ['c = self._original_chrom_sizes.copy()', 'c.update({name: 0 for name in ignored})',
                    'return self.__class__(c, set(ignored) | set(self._ignored))']:
            raise Unsupported('with_ignored_added is not copy + update of the copy + a new context over fresh sets: %s' % srcs)
        return 'Definition gen_with_ignored_added_is_functional : bool := true.\n'
    emit(defs, 'gen_with_ignored_added_is_functional', derive_functional)

    return 'bionumpy/genomic_data/genome_context.py, streams/multistream.py, streams/left_join.py, streams/groupby_func.py, genomic_data/genomic_track.py, genomic_data/genomic_intervals.py, computation_graph.py, streams/decorators.py, arithmetics/similarity_measures.py', defs

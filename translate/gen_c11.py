"""gen_c11 — regenerates coq/theories/Gen/C11.v from the chunk-handling kernels of
bionumpy/streams/chunk_entries.py, io/parser.py (chunk_lines), streams/reductions.py, computation_graph.py and
streams/groupby_func.py.

What is translated are the *decisions and index formulas* of the loops: the `while` conditions, slice bounds, counter
updates, the component-wise additions of the reductions, the change-point comparison, the first-equals-last test, the
bounds of the group slices, and the buffer-index tests of the graph nodes.  Element-wise NumPy expressions are read per
element (array leaves are renamed, by their exact source text, to scalar parameters).  The statement *kind* matters
and is checked: the emission loop of `_chunk_entries` must be a `while` inside the `for` (an `if` there is the defect of
the pinned commit) — anything that is not found in exactly the expected shape raises Unsupported and the definition is
emitted as `unit`, so its bridge lemma stops type-checking.  Fail closed, never a guess.
"""
import ast
import os

from translate.py2coq import Kernel, Unsupported, find_function, src_of

REPO = os.environ.get('VERIF_REPO', '/repo')
CMP = {ast.Lt: '<?', ast.LtE: '<=?', ast.Gt: '>?', ast.GtE: '>=?', ast.Eq: '=?'}
FILES = dict(ce='bionumpy/streams/chunk_entries.py', parser='bionumpy/io/parser.py', red='bionumpy/streams/reductions.py',
             cg='bionumpy/computation_graph.py', gb='bionumpy/streams/groupby_func.py',
             gt='bionumpy/genomic_data/genomic_track.py', gi='bionumpy/genomic_data/genomic_intervals.py',
             ai='bionumpy/arithmetics/intervals.py', cnt='bionumpy/sequence/count_encoded.py')


def parse(rel):
    return ast.parse(open(os.path.join(REPO, rel)).read())


class K(Kernel):
    """Kernel restricted to closed expressions over parameters/renames (no let-slicing), plus booleans."""

    def z(self, node, params):
        deps = []
        t = self.expr(node, params, deps)
        if deps:
            raise Unsupported('expression reads locals %s: %s' % (deps, src_of(node)))
        return t

    def b(self, node, params):
        s = src_of(node)
        if isinstance(node, ast.Compare) and len(node.ops) == 1:
            op, right = node.ops[0], node.comparators[0]
            if type(op) in CMP:
                return '(%s %s %s)' % (self.z(node.left, params), CMP[type(op)], self.z(right, params))
            if isinstance(op, ast.NotEq):
                return '(negb (%s =? %s))' % (self.z(node.left, params), self.z(right, params))
            if isinstance(op, ast.In) and isinstance(right, ast.Tuple) and len(right.elts) >= 1:
                x = self.z(node.left, params)
                alts = ['(%s =? %s)' % (x, self.z(e, params)) for e in right.elts]
                out = alts[-1]
                for a in reversed(alts[:-1]):
                    out = '(orb %s %s)' % (a, out)
                return out
        raise Unsupported('boolean expression outside the subset: %s' % s)


def sig(params, ty='Z'):
    return ' '.join('(%s : %s)' % (p, ty) for p in params)


def zdef(name, params, text):
    return 'Definition %s %s : Z :=\n  %s.\n' % (name, sig(params), text)


def bdef(name, params, text):
    return 'Definition %s %s : bool :=\n  %s.\n' % (name, sig(params), text)


def sdef(name, s):
    if '"' in s:
        raise Unsupported('string constant with a quote')
    return 'Definition %s : string := "%s"%%string.\n' % (name, s)


def emit(defs, name, fn):
    try:
        defs.append(fn())
    except Unsupported as e:
        defs.append('(* NOT TRANSLATED: %s *)\nDefinition %s : unit := tt.\n' % (str(e).replace('*)', '* )'), name))
    except Exception as e:
        defs.append('(* NOT TRANSLATED: %s: %s *)\nDefinition %s : unit := tt.\n' % (type(e).__name__, str(e).replace('*)', '* )'), name))


def only(xs, what):
    xs = list(xs)
    if len(xs) != 1:
        raise Unsupported('%s: expected exactly one, found %d' % (what, len(xs)))
    return xs[0]


def stmts_of(body, kind):
    return [s for s in body if isinstance(s, kind)]


def is_slice(node, base, lower, upper):
    """node is base[lower:upper] with the given presence pattern (True = must be present, False = absent)."""
    return (isinstance(node, ast.Subscript) and src_of(node.value) == base and isinstance(node.slice, ast.Slice)
            and node.slice.step is None and (node.slice.lower is not None) == lower and (node.slice.upper is not None) == upper)


def assign_to(body, name):
    """the plain assignments `name = value` directly in this statement list"""
    return [s.value for s in body if isinstance(s, ast.Assign) and len(s.targets) == 1 and src_of(s.targets[0]) == name]


def aug_to(body, name):
    return [s for s in body if isinstance(s, ast.AugAssign) and src_of(s.target) == name]


# ----------------------------------------------------------------------------- streams/chunk_entries.py
def ce_parts():
    f = find_function(parse(FILES['ce']), '_chunk_entries')
    loop = only(stmts_of(f.body, ast.For), '_chunk_entries: for loop over the stream')
    if any(isinstance(n, ast.If) for n in ast.walk(loop)):
        raise Unsupported('_chunk_entries: an `if` inside the for loop (the emission must be a `while`)')
    wh = only(stmts_of(loop.body, ast.While), '_chunk_entries: `while` directly inside the for loop')
    if wh.orelse or any(isinstance(n, (ast.Break, ast.Continue)) for n in ast.walk(loop)):
        raise Unsupported('_chunk_entries: break/continue/else in the loops')
    tail = only(stmts_of(f.body, ast.If), '_chunk_entries: final `if buffer_size:`')
    return f, loop, wh, tail


def ce_defs(defs):
    k = K(ast.parse('def f(): pass').body[0], {'len(chunk)': 'chunk_len'})
    P = ['buffer_size', 'n_entries']
    emit(defs, 'gen_ce_loop_cond', lambda: bdef('gen_ce_loop_cond', P, k.b(ce_parts()[2].test, P)))

    def size_in():
        _, loop, wh, _ = ce_parts()
        a = only(aug_to(loop.body, 'buffer_size'), 'buffer_size += ... in the for loop')
        if not isinstance(a.op, ast.Add) or loop.body.index(a) > loop.body.index(wh):
            raise Unsupported('buffer_size update is not `+=` before the while')
        return zdef('gen_ce_size_in', ['buffer_size', 'chunk_len'], '(buffer_size + %s)' % k.z(a.value, ['chunk_len']))
    emit(defs, 'gen_ce_size_in', size_in)

    def emit_stop():
        wh = ce_parts()[2]
        ys = [n for n in ast.walk(wh) if isinstance(n, ast.Yield)]
        y = only(ys, 'yield inside the while')
        if not is_slice(y.value, 'total', False, True):
            raise Unsupported('yielded value is not total[:e]: %s' % src_of(y.value))
        if assign_to(wh.body, 'total') == [] or src_of(assign_to(wh.body, 'total')[0]) != 'np.concatenate(b)':
            raise Unsupported('total is not np.concatenate(b)')
        return zdef('gen_ce_emit_stop', ['n_entries'], k.z(y.value.slice.upper, ['n_entries']))
    emit(defs, 'gen_ce_emit_stop', emit_stop)

    def carry():
        wh = ce_parts()[2]
        v = only(assign_to(wh.body, 'b'), 'b = [...] inside the while')
        if not (isinstance(v, ast.List) and len(v.elts) == 1 and is_slice(v.elts[0], 'total', True, False)):
            raise Unsupported('carry is not [total[s:]]: %s' % src_of(v))
        return v.elts[0].slice.lower
    emit(defs, 'gen_ce_carry_start', lambda: zdef('gen_ce_carry_start', ['n_entries'], k.z(carry(), ['n_entries'])))

    def size_after():
        wh = ce_parts()[2]
        v = only(assign_to(wh.body, 'buffer_size'), 'buffer_size = ... inside the while')
        if src_of(v) != 'len(b[0])':
            raise Unsupported('buffer_size after a yield is not len(b[0]): %s' % src_of(v))
        # len(total[s:]) for 0 <= s is max(0, len(total) - s)
        return zdef('gen_ce_size_after', ['total_len', 'n_entries'], '(Z.max 0 (total_len - %s))' % k.z(carry(), ['n_entries']))
    emit(defs, 'gen_ce_size_after', size_after)

    def tail_cond():
        tail = ce_parts()[3]
        if src_of(tail.test) != 'buffer_size' or tail.orelse or src_of(tail.body[0]) != 'yield np.concatenate(b)':
            raise Unsupported('final statement is not `if buffer_size: yield np.concatenate(b)`')
        return bdef('gen_ce_tail_cond', ['buffer_size'], '(negb (buffer_size =? 0))')      # truthiness of an int
    emit(defs, 'gen_ce_tail_cond', tail_cond)


# ----------------------------------------------------------------------------- io/parser.py:chunk_lines
def cl_parts():
    f = find_function(parse(FILES['parser']), 'chunk_lines')
    loop = only(stmts_of(f.body, ast.For), 'chunk_lines: for loop')
    if any(isinstance(n, (ast.If, ast.Break, ast.Continue)) for n in ast.walk(loop)):
        raise Unsupported('chunk_lines: if/break/continue inside the for loop')
    wh = only(stmts_of(loop.body, ast.While), 'chunk_lines: `while` directly inside the for loop')
    return f, loop, wh


def cl_defs(defs):
    k = K(ast.parse('def f(): pass').body[0], {})
    P = ['n_lines_in_chunk', 'remaining_lines']
    emit(defs, 'gen_cl_loop_cond', lambda: bdef('gen_cl_loop_cond', P, k.b(cl_parts()[2].test, P)))

    def take():
        wh = cl_parts()[2]
        calls = [s.value for s in wh.body if isinstance(s, ast.Expr) and isinstance(s.value, ast.Call)
                 and src_of(s.value.func) == 'cur_buffers.append']
        c = only(calls, 'cur_buffers.append(...) inside the while')
        if not is_slice(c.args[0], 'chunk', False, True):
            raise Unsupported('appended piece is not chunk[:e]')
        return zdef('gen_cl_take_stop', ['remaining_lines'], k.z(c.args[0].slice.upper, ['remaining_lines']))
    emit(defs, 'gen_cl_take_stop', take)

    def rest():
        wh = cl_parts()[2]
        v = only(assign_to(wh.body, 'chunk'), 'chunk = ... inside the while')
        if not is_slice(v, 'chunk', True, False):
            raise Unsupported('rest is not chunk[s:]')
        return zdef('gen_cl_rest_start', ['remaining_lines'], k.z(v.slice.lower, ['remaining_lines']))
    emit(defs, 'gen_cl_rest_start', rest)

    def reset():
        f, loop, wh = cl_parts()
        inside = only(assign_to(wh.body, 'remaining_lines'), 'remaining_lines = ... inside the while')
        before = only(assign_to(f.body, 'remaining_lines'), 'remaining_lines = ... before the loop')
        if src_of(inside) != src_of(before):
            raise Unsupported('initial and reset value of remaining_lines differ')
        if src_of(only(assign_to(wh.body, 'n_lines_in_chunk'), 'n_lines_in_chunk inside while')) != 'len(chunk)' or \
                src_of(only(assign_to(loop.body, 'n_lines_in_chunk'), 'n_lines_in_chunk in for')) != 'len(chunk)':
            raise Unsupported('n_lines_in_chunk is not len(chunk)')
        return zdef('gen_cl_reset', ['n_lines'], k.z(inside, ['n_lines']))
    emit(defs, 'gen_cl_reset', reset)

    def after():
        f, loop, wh = cl_parts()
        a = only(aug_to(loop.body, 'remaining_lines'), 'remaining_lines -= ... after the while')
        if not isinstance(a.op, ast.Sub) or loop.body.index(a) < loop.body.index(wh):
            raise Unsupported('remaining_lines update is not `-=` after the while')
        return zdef('gen_cl_after', ['remaining_lines', 'n_lines_in_chunk'],
                    '(remaining_lines - %s)' % k.z(a.value, ['n_lines_in_chunk']))
    emit(defs, 'gen_cl_after', after)


# ----------------------------------------------------------------------------- streams/reductions.py
def red_defs(defs):
    tree = lambda: parse(FILES['red'])

    def sum_and_n():
        f = find_function(tree(), 'sum_and_n')
        r = only([n for n in ast.walk(f) if isinstance(n, ast.Return)], 'sum_and_n: return')
        c = r.value
        if not (isinstance(c, ast.Call) and src_of(c.func) == 'np.append' and len(c.args) == 2 and not c.keywords):
            raise Unsupported('sum_and_n does not return np.append(a, b)')
        if src_of(c.args[0]) != 'np.sum(array, axis=axis)' or src_of(c.args[1]) != 'n':
            raise Unsupported('sum_and_n: unexpected np.append arguments %s' % src_of(c))
        first = f.body[0]
        if not (isinstance(first, ast.If) and src_of(first.test) == 'axis is None'
                and [src_of(v) for v in assign_to(first.body, 'n')] == ['array.size']):
            raise Unsupported('sum_and_n: n is not array.size when axis is None')
        return 'Definition gen_sum_and_n (total : Z) (size : Z) : Z * Z :=\n  (total, size).\n'
    emit(defs, 'gen_sum_and_n', sum_and_n)

    def br():
        f = find_function(tree(), 'bincount_reduce')
        if len(f.body) != 3 or not isinstance(f.body[0], ast.If) or f.body[0].orelse:
            raise Unsupported('bincount_reduce is not `if c: ...; return` followed by the other branch')
        return f, f.body[0], f.body[0].body, f.body[1:]
    ren = {'bincount_a.size': 'asize', 'bincount_b.size': 'bsize'}
    P = ['asize', 'bsize']

    def branch(stmts, target, value):
        if len(stmts) != 2 or not isinstance(stmts[0], ast.AugAssign) or not isinstance(stmts[0].op, ast.Add):
            raise Unsupported('bincount_reduce branch is not `x[:k] += y; return x`')
        a = stmts[0]
        if not is_slice(a.target, target, False, True) or src_of(a.value) != value or src_of(stmts[1]) != 'return ' + target:
            raise Unsupported('bincount_reduce branch: %s; %s' % (src_of(stmts[0]), src_of(stmts[1])))
        return a.target.slice.upper
    kb = lambda: K(br()[0], ren)
    emit(defs, 'gen_br_cond', lambda: bdef('gen_br_cond', P, kb().b(br()[1].test, P)))
    emit(defs, 'gen_br_then_stop', lambda: zdef('gen_br_then_stop', P, kb().z(branch(br()[2], 'bincount_a', 'bincount_b'), P)))
    emit(defs, 'gen_br_else_stop', lambda: zdef('gen_br_else_stop', P, kb().z(branch(br()[3], 'bincount_b', 'bincount_a'), P)))

    def br_add():
        branch(br()[2], 'bincount_a', 'bincount_b')
        branch(br()[3], 'bincount_b', 'bincount_a')
        return zdef('gen_br_add', ['x', 'y'], '(x + y)')         # `+=` of the two arrays, per element
    emit(defs, 'gen_br_add', br_add)

    def hr():
        f = find_function(tree(), 'histogram_reduce')
        srcs = [src_of(s) for s in f.body]
        if len(srcs) != 3 or srcs[0] != 'hist, edge = next(histograms)' or srcs[2] != 'return (hist, edge)':
            raise Unsupported('histogram_reduce: unexpected statements %s' % srcs)
        v = only(assign_to(f.body, 'hist'), 'hist = ...')
        k = K(f, {'sum((h[0] for h in histograms))': 'rest_sum', 'hist': 'first'})
        return zdef('gen_hr_total', ['rest_sum', 'first'], k.z(v, ['rest_sum', 'first']))
    emit(defs, 'gen_hr_total', hr)


# ----------------------------------------------------------------------------- computation_graph.py
def cg_defs(defs):
    tree = lambda: parse(FILES['cg'])

    def mean_reduction():
        """(_add_columns(a[0], b[0]), _add_columns(a[1], b[1])): which components are combined — per column the helper adds"""
        f = find_function(tree(), 'mean_reduction')
        r = only(stmts_of(f.body, ast.Return), 'mean_reduction: return')
        if len(f.body) != 1 or not isinstance(r.value, ast.Tuple) or len(r.value.elts) != 2:
            raise Unsupported('mean_reduction does not return a pair')
        k = K(f, {'_add_columns(sum_and_n_a[0], sum_and_n_b[0])': '(gen_ac_add a0 b0)',
                  '_add_columns(sum_and_n_a[1], sum_and_n_b[1])': '(gen_ac_add a1 b1)',
                  '_add_columns(sum_and_n_a[0], sum_and_n_b[1])': '(gen_ac_add a0 b1)',
                  '_add_columns(sum_and_n_a[1], sum_and_n_b[0])': '(gen_ac_add a1 b0)'})
        P = ['a0', 'a1', 'b0', 'b1']
        return 'Definition gen_mean_reduction %s : Z * Z :=\n  (%s, %s).\n' % (sig(P), k.z(r.value.elts[0], P), k.z(r.value.elts[1], P))

    def ac():
        f = find_function(tree(), '_add_columns')
        body = [st for st in f.body if not (isinstance(st, ast.Expr) and isinstance(st.value, ast.Constant))]   # docstring
        if len(body) != 3 or not isinstance(body[0], ast.If) or not isinstance(body[1], ast.If) or not isinstance(body[2], ast.Return):
            raise Unsupported('_add_columns is not `if same: return a + b; if shorter: swap; return concatenate`')
        return f, body
    kac = lambda: K(ac()[0], {'len(a)': 'la', 'len(b)': 'lb'})
    PL = ['la', 'lb']

    def ac_equal():
        f, body = ac()
        t = body[0].test
        if not (isinstance(t, ast.BoolOp) and isinstance(t.op, ast.Or) and len(t.values) == 2
                and src_of(t.values[0]) == "not (hasattr(a, '__len__') and hasattr(b, '__len__'))"
                and [src_of(x) for x in body[0].body] == ['return a + b'] and not body[0].orelse):
            raise Unsupported('_add_columns: first branch is %s -> %s' % (src_of(t), [src_of(x) for x in body[0].body]))
        return bdef('gen_ac_equal_cond', PL, kac().b(t.values[1], PL))
    emit(defs, 'gen_ac_equal_cond', ac_equal)

    def ac_swap():
        f, body = ac()
        if [src_of(x) for x in body[1].body] != ['a, b = (b, a)'] or body[1].orelse:
            raise Unsupported('_add_columns: second branch does not swap the operands: %s' % [src_of(x) for x in body[1].body])
        return bdef('gen_ac_swap_cond', PL, kac().b(body[1].test, PL))
    emit(defs, 'gen_ac_swap_cond', ac_swap)

    def ac_parts():
        f, body = ac()
        c = body[2].value
        if not (isinstance(c, ast.Call) and src_of(c.func) == 'np.concatenate' and len(c.args) == 1 and isinstance(c.args[0], ast.List)
                and len(c.args[0].elts) == 2):
            raise Unsupported('_add_columns does not return np.concatenate([head, tail])')
        head, tail = c.args[0].elts
        if not (isinstance(head, ast.BinOp) and isinstance(head.op, ast.Add) and is_slice(head.left, 'a', False, True)
                and src_of(head.right) == 'b' and is_slice(tail, 'a', True, False)):
            raise Unsupported('_add_columns: head/tail are %s / %s' % (src_of(head), src_of(tail)))
        return head.left.slice.upper, tail.slice.lower
    emit(defs, 'gen_ac_prefix_stop', lambda: zdef('gen_ac_prefix_stop', PL, kac().z(ac_parts()[0], PL)))
    emit(defs, 'gen_ac_tail_start', lambda: zdef('gen_ac_tail_start', PL, kac().z(ac_parts()[1], PL)))

    def ac_add():
        ac_equal()
        ac_parts()
        return zdef('gen_ac_add', ['x', 'y'], '(x + y)')          # `a + b` / `a[:len(b)] + b`, per column
    emit(defs, 'gen_ac_add', ac_add)
    emit(defs, 'gen_mean_reduction', mean_reduction)

    def add_hist():
        f = find_function(tree(), '_add_histograms')
        r = only(stmts_of(f.body, ast.Return), '_add_histograms: return')
        if not isinstance(r.value, ast.Tuple) or len(r.value.elts) != 2 or src_of(r.value.elts[1]) != 'histogram_a[1]':
            raise Unsupported('_add_histograms does not return (counts, histogram_a[1])')
        k = K(f, {'histogram_a[0]': 'x', 'histogram_b[0]': 'y'})
        return zdef('gen_add_hist_count', ['x', 'y'], k.z(r.value.elts[0], ['x', 'y']))
    emit(defs, 'gen_add_hist_count', add_hist)

    # ---- the reductions of np.sum (after fix-3): Node.__array_function__ -> _buffer_sum per buffer, _sum_reduction(axis)
    def body_of(f):
        return [st for st in f.body if not (isinstance(st, ast.Expr) and isinstance(st.value, ast.Constant))]   # docstring

    def conj2(test, k, params):
        """`x and y` of two translatable comparisons"""
        if not (isinstance(test, ast.BoolOp) and isinstance(test.op, ast.And) and len(test.values) == 2):
            raise Unsupported('not a two-part conjunction: %s' % src_of(test))
        return '(andb %s %s)' % (k.b(test.values[0], params), k.b(test.values[1], params))

    def hist_red():
        for n in ast.walk(tree()):
            if isinstance(n, ast.Assign) and src_of(n.targets[0]) == 'reductions_map' and isinstance(n.value, ast.Dict):
                d = {src_of(a): src_of(b) for a, b in zip(n.value.keys, n.value.values)}
                if d != {'np.histogram': '_add_histograms'}:
                    raise Unsupported('reductions_map: %s' % d)
                return sdef('gen_hist_reduction', d['np.histogram'])
        raise Unsupported('no reductions_map')
    emit(defs, 'gen_hist_reduction', hist_red)

    def sr():
        """_sum_reduction(axis): `if axis is None: return F; if axis in (..): return G; return H`"""
        f = find_function(tree(), '_sum_reduction')
        body = body_of(f)
        if not (len(body) == 3 and isinstance(body[0], ast.If) and isinstance(body[1], ast.If) and isinstance(body[2], ast.Return)
                and src_of(body[0].test) == 'axis is None' and not body[0].orelse and not body[1].orelse
                and len(body[0].body) == 1 and isinstance(body[0].body[0], ast.Return)
                and len(body[1].body) == 1 and isinstance(body[1].body[0], ast.Return)
                and [a.arg for a in f.args.args] == ['axis']):
            raise Unsupported('_sum_reduction is not `if axis is None: return ..; if axis in ..: return ..; return ..`')
        return f, body
    emit(defs, 'gen_sumred_none', lambda: sdef('gen_sumred_none', src_of(sr()[1][0].body[0].value)))
    emit(defs, 'gen_sumred_axis0', lambda: sdef('gen_sumred_axis0', src_of(sr()[1][1].body[0].value)))
    emit(defs, 'gen_sumred_rows', lambda: sdef('gen_sumred_rows', src_of(sr()[1][2].value)))
    emit(defs, 'gen_sumred_axis0_cond', lambda: bdef('gen_sumred_axis0_cond', ['axis'], K(sr()[0], {}).b(sr()[1][1].test, ['axis'])))

    def at():
        """_add_totals: `if <both 0-d>: return a + b; return _concatenate_rows(a, b)`"""
        f = find_function(tree(), '_add_totals')
        body = body_of(f)
        if not (len(body) == 2 and isinstance(body[0], ast.If) and not body[0].orelse and len(body[0].body) == 1
                and isinstance(body[0].body[0], ast.Return) and isinstance(body[1], ast.Return)
                and [a.arg for a in f.args.args] == ['a', 'b']):
            raise Unsupported('_add_totals is not `if ..: return ..; return ..`')
        return f, body
    kat = lambda: K(at()[0], {'np.ndim(a)': 'na', 'np.ndim(b)': 'nb', 'a': 'x', 'b': 'y'})
    emit(defs, 'gen_at_scalar_cond', lambda: bdef('gen_at_scalar_cond', ['na', 'nb'], conj2(at()[1][0].test, kat(), ['na', 'nb'])))
    emit(defs, 'gen_at_add', lambda: zdef('gen_at_add', ['x', 'y'], kat().z(at()[1][0].body[0].value, ['x', 'y'])))
    emit(defs, 'gen_at_else', lambda: sdef('gen_at_else', src_of(at()[1][1].value)))

    def cr():
        """_concatenate_rows: `return np.concatenate([first, second])`"""
        f = find_function(tree(), '_concatenate_rows')
        body = body_of(f)
        if not (len(body) == 1 and isinstance(body[0], ast.Return) and [a.arg for a in f.args.args] == ['a', 'b']):
            raise Unsupported('_concatenate_rows is not a single return')
        c = body[0].value
        if not (isinstance(c, ast.Call) and src_of(c.func) == 'np.concatenate' and len(c.args) == 1 and not c.keywords
                and isinstance(c.args[0], ast.List) and len(c.args[0].elts) == 2):
            raise Unsupported('_concatenate_rows does not return np.concatenate([.., ..])')
        return c.args[0].elts
    emit(defs, 'gen_cr_first', lambda: sdef('gen_cr_first', src_of(cr()[0])))
    emit(defs, 'gen_cr_second', lambda: sdef('gen_cr_second', src_of(cr()[1])))

    def bs():
        """_buffer_sum: `if axis in (..) and len(array) == 0: return 0; return np.sum(array, axis=axis, **kwargs)`"""
        f = find_function(tree(), '_buffer_sum')
        body = body_of(f)
        if not (len(body) == 2 and isinstance(body[0], ast.If) and not body[0].orelse and len(body[0].body) == 1
                and isinstance(body[0].body[0], ast.Return) and isinstance(body[1], ast.Return)
                and [a.arg for a in f.args.args] == ['array', 'axis']
                and src_of(body[1].value) == 'np.sum(array, axis=axis, **kwargs)'):
            raise Unsupported('_buffer_sum is not `if ..: return ..; return np.sum(array, axis=axis, **kwargs)`')
        return f, body
    kbs = lambda: K(bs()[0], {'len(array)': 'nrows'})
    emit(defs, 'gen_bs_empty_cond', lambda: bdef('gen_bs_empty_cond', ['axis', 'nrows'], conj2(bs()[1][0].test, kbs(), ['axis', 'nrows'])))
    emit(defs, 'gen_bs_empty_val', lambda: zdef('gen_bs_empty_val', [], kbs().z(bs()[1][0].body[0].value, [])))

    def af():
        """Node.__array_function__: the np.sum branch"""
        f = find_function(tree(), 'Node.__array_function__')
        ifs = [st for st in f.body if isinstance(st, ast.If) and src_of(st.test) == 'func == np.sum']
        br = only(ifs, 'Node.__array_function__: `if func == np.sum:`')
        if br.orelse or len(br.body) != 3 or not isinstance(br.body[2], ast.Return):
            raise Unsupported('np.sum branch is not `axis = ..; comp_node = ..; return ..`')
        axis = only(assign_to(br.body, 'axis'), 'axis = ...')
        comp = only(assign_to(br.body, 'comp_node'), 'comp_node = ...')
        ret = br.body[2].value
        if not (isinstance(comp, ast.Call) and src_of(comp.func) == 'ComputationNode' and len(comp.args) == 3
                and [src_of(a) for a in comp.args[1:]] == ['args', 'kwargs']):
            raise Unsupported('np.sum branch: comp_node is %s' % src_of(comp))
        if not (isinstance(ret, ast.Call) and src_of(ret.func) == 'ReductionNode' and len(ret.args) == 2 and not ret.keywords
                and src_of(ret.args[0]) == 'comp_node'):
            raise Unsupported('np.sum branch returns %s' % src_of(ret))
        # the branch must come before the generic reductions_map lookup
        later = [i for i, st in enumerate(f.body) if isinstance(st, ast.If) and src_of(st.test) == 'func in reductions_map']
        if not later or f.body.index(br) > later[0]:
            raise Unsupported('np.sum branch does not precede the reductions_map lookup')
        return axis, comp.args[0], ret.args[1]
    emit(defs, 'gen_af_sum_axis', lambda: sdef('gen_af_sum_axis', src_of(af()[0])))
    emit(defs, 'gen_af_sum_func', lambda: sdef('gen_af_sum_func', src_of(af()[1])))
    emit(defs, 'gen_af_sum_red', lambda: sdef('gen_af_sum_red', src_of(af()[2])))

    ren = {'self._buffer_index': 'buffer_index'}
    P = ['buffer_index', 'i']

    def node(cls):
        f = find_function(tree(), cls + '._get_buffer')
        if not isinstance(f.body[0], ast.Assert):
            raise Unsupported('%s._get_buffer does not start with the index assertion' % cls)
        test = only(stmts_of(f.body, ast.If), '%s._get_buffer: if on the buffer index' % cls)
        incs = [n for n in ast.walk(f) if isinstance(n, ast.AugAssign) and src_of(n.target) == 'self._buffer_index']
        inc = only(incs, 'self._buffer_index += 1')
        if not isinstance(inc.op, ast.Add):
            raise Unsupported('buffer index update is not +=')
        return f, f.body[0].test, test, inc
    emit(defs, 'gen_sn_assert', lambda: bdef('gen_sn_assert', P, K(node('StreamNode')[0], ren).b(node('StreamNode')[1], P)))

    def sn_advance():
        f, _, test, inc = node('StreamNode')
        srcs = [src_of(s) for s in test.body]
        if test.orelse or srcs != ['self._current_buffer = next(self._stream)', 'self._buffer_index += 1']:
            raise Unsupported('StreamNode._get_buffer: advancing branch is %s' % srcs)
        if src_of(f.body[-1]) != 'return self._current_buffer':
            raise Unsupported('StreamNode._get_buffer does not end by returning the current buffer')
        return bdef('gen_sn_advance', P, K(f, ren).b(test.test, P))
    emit(defs, 'gen_sn_advance', sn_advance)
    emit(defs, 'gen_sn_next', lambda: zdef('gen_sn_next', ['buffer_index'],
                                           '(buffer_index + %s)' % K(node('StreamNode')[0], ren).z(node('StreamNode')[3].value, [])))
    emit(defs, 'gen_cn_assert', lambda: bdef('gen_cn_assert', P, K(node('ComputationNode')[0], ren).b(node('ComputationNode')[1], P)))

    def cn_cached():
        f, _, test, inc = node('ComputationNode')
        if test.orelse or [src_of(s) for s in test.body] != ['return self._current_buffer'] or f.body.index(test) != 1:
            raise Unsupported('ComputationNode._get_buffer: the cached branch is not `return self._current_buffer` right after the assertion')
        if src_of(f.body[-1]) != 'return self._current_buffer' or f.body.index(inc) != len(f.body) - 2:
            raise Unsupported('ComputationNode._get_buffer: index update / return are not the last statements')
        return bdef('gen_cn_cached', P, K(f, ren).b(test.test, P))
    emit(defs, 'gen_cn_cached', cn_cached)
    emit(defs, 'gen_cn_next', lambda: zdef('gen_cn_next', ['buffer_index'],
                                           '(buffer_index + %s)' % K(node('ComputationNode')[0], ren).z(node('ComputationNode')[3].value, [])))


# ----------------------------------------------------------------------------- streams/groupby_func.py
def gb_defs(defs):
    tree = lambda: parse(FILES['gb'])

    def changes():
        f = find_function(tree(), 'get_changes')
        rets = [n.value for n in ast.walk(f) if isinstance(n, ast.Return)]
        out = []
        for r in rets:
            if src_of(r) == 'get_ragged_changes(array)':
                continue
            if not (isinstance(r, ast.BinOp) and isinstance(r.op, ast.Add) and isinstance(r.right, ast.Constant)
                    and isinstance(r.left, ast.Call) and src_of(r.left.func) == 'np.flatnonzero' and len(r.left.args) == 1):
                raise Unsupported('get_changes: return is not np.flatnonzero(...) + c: %s' % src_of(r))
            x = r.left.args[0]
            if isinstance(x, ast.Call) and src_of(x.func) == 'np.all' and len(x.args) == 1 and \
                    [(kw.arg, src_of(kw.value)) for kw in x.keywords] == [('axis', '-1')]:
                x = x.args[0]                           # one key column: all() over the last axis is the element itself
            out.append((x, r.right.value))
        if len(out) != 3:
            raise Unsupported('get_changes: expected three flatnonzero branches, found %d' % len(out))
        return f, out
    ren = {'array.raw()[1:]': 'next_key', 'array.raw()[:-1]': 'prev_key', 'array[1:]': 'next_key', 'array[:-1]': 'prev_key'}
    P = ['next_key', 'prev_key']
    for i, nm in enumerate(('gen_gc_changed_encoded', 'gen_gc_changed_string', 'gen_gc_changed_plain')):
        emit(defs, nm, (lambda i, nm: lambda: bdef(nm, P, K(changes()[0], ren).b(changes()[1][i][0], P)))(i, nm))

    def offset():
        offs = set(o for _, o in changes()[1])
        if len(offs) != 1:
            raise Unsupported('get_changes: branches add different offsets %s' % offs)
        return zdef('gen_gc_index', ['i'], '(i + %d)' % offs.pop())
    emit(defs, 'gen_gc_index', offset)

    def gb():
        f = find_function(tree(), 'groupby')
        test = only([s for s in f.body if isinstance(s, ast.If) and 'keys[-1]' in src_of(s.test)], 'groupby: shortcut test')
        return f, test

    def fast_test():
        f, test = gb()
        t = test.test
        if not (isinstance(t, ast.BoolOp) and isinstance(t.op, ast.And) and len(t.values) == 2):
            raise Unsupported('groupby: shortcut test is not `kind and equal`')
        c = t.values[1]
        if not (isinstance(c, ast.Call) and src_of(c.func) == 'np.all' and len(c.args) == 1 and not c.keywords):
            raise Unsupported('groupby: second conjunct is not np.all(...)')
        # keys[-1] is the element at index len-1 (Python negative index), keys[0] the first
        k = K(f, {'keys[-1]': 'last_key', 'keys[0]': 'first_key'})
        return bdef('gen_gb_fast_test', ['last_key', 'first_key'], k.b(c.args[0], ['last_key', 'first_key']))
    emit(defs, 'gen_gb_fast_test', fast_test)

    def empty_test():
        f, _ = gb()
        tests = [st for st in f.body if isinstance(st, ast.If) and src_of(st.test).startswith('len(keys)')]
        t = only(tests, 'groupby: empty-table test')
        if [src_of(x) for x in t.body] != ['return grouped_stream(iter(()), column)'] or t.orelse:
            raise Unsupported('groupby: an empty table returns %s' % [src_of(x) for x in t.body])
        shortcut = only([x for x in f.body if isinstance(x, ast.If) and 'keys[-1]' in src_of(x.test)], 'shortcut test')
        if f.body.index(t) > f.body.index(shortcut):
            raise Unsupported('groupby: the empty-table test comes after the shortcut test')
        return bdef('gen_gb_empty_test', ['keys_len'], K(f, {'len(keys)': 'keys_len'}).b(t.test, ['keys_len']))
    emit(defs, 'gen_gb_empty_test', empty_test)

    def fast_start():
        f, test = gb()
        r = only(stmts_of(test.body, ast.Return), 'groupby: shortcut return')
        g = only([n for n in ast.walk(r) if isinstance(n, ast.GeneratorExp)], 'shortcut generator')
        gen = g.generators[0]
        if not (isinstance(gen.iter, ast.List) and len(gen.iter.elts) == 1 and src_of(gen.target) == 'start' and not gen.ifs
                and src_of(g.elt) == '(key(keys[start]), data[start:])'):
            raise Unsupported('groupby: shortcut yields %s for %s' % (src_of(g.elt), src_of(gen.iter)))
        return zdef('gen_gb_fast_start', [], K(f, {}).z(gen.iter.elts[0], []))
    emit(defs, 'gen_gb_fast_start', fast_start)

    def bounds():
        f, _ = gb()
        vs = assign_to(f.body, 'changes')
        if [src_of(v) for v in vs][:1] != ['get_changes(keys)'] or len(vs) != 2:
            raise Unsupported('groupby: changes is not get_changes(keys) then the padded bounds')
        v = vs[1]
        if not (isinstance(v, ast.Call) and src_of(v.func) == 'np.append' and len(v.args) == 2 and isinstance(v.args[0], ast.Call)
                and src_of(v.args[0].func) == 'np.insert' and len(v.args[0].args) == 3 and src_of(v.args[0].args[0]) == 'changes'):
            raise Unsupported('groupby: bounds are not np.append(np.insert(changes, p, v), e): %s' % src_of(v))
        return f, v.args[0].args[1], v.args[0].args[2], v.args[1]
    kb = lambda: K(bounds()[0], {'len(data)': 'data_len'})
    emit(defs, 'gen_gb_insert_pos', lambda: zdef('gen_gb_insert_pos', [], kb().z(bounds()[1], [])))
    emit(defs, 'gen_gb_insert_val', lambda: zdef('gen_gb_insert_val', [], kb().z(bounds()[2], [])))
    emit(defs, 'gen_gb_last_bound', lambda: zdef('gen_gb_last_bound', ['data_len'], kb().z(bounds()[3], ['data_len'])))

    def group():
        f, _ = gb()
        r = f.body[-1]
        if not isinstance(r, ast.Return):
            raise Unsupported('groupby does not end with a return')
        g = only([n for n in ast.walk(r) if isinstance(n, ast.GeneratorExp)], 'group generator')
        gen = g.generators[0]
        if src_of(gen.target) != '(start, end)' or src_of(gen.iter) != 'zip(changes[:-1], changes[1:])' or gen.ifs:
            raise Unsupported('groupby: groups iterate %s in %s' % (src_of(gen.target), src_of(gen.iter)))
        e = g.elt
        if not (isinstance(e, ast.Tuple) and len(e.elts) == 2 and isinstance(e.elts[0], ast.Call) and src_of(e.elts[0].func) == 'key'
                and isinstance(e.elts[0].args[0], ast.Subscript) and src_of(e.elts[0].args[0].value) == 'keys'
                and is_slice(e.elts[1], 'data', True, True)):
            raise Unsupported('groupby: group is %s' % src_of(e))
        return f, e.elts[0].args[0].slice, e.elts[1].slice.lower, e.elts[1].slice.upper
    PG = ['start', 'end_']
    kg = lambda: K(group()[0], {'end': 'end_'})
    emit(defs, 'gen_gb_key_index', lambda: zdef('gen_gb_key_index', PG, kg().z(group()[1], PG)))
    emit(defs, 'gen_gb_slice_lo', lambda: zdef('gen_gb_slice_lo', PG, kg().z(group()[2], PG)))
    emit(defs, 'gen_gb_slice_hi', lambda: zdef('gen_gb_slice_hi', PG, kg().z(group()[3], PG)))

    def join():
        f = find_function(tree(), 'join_groupbys')
        calls = [n for n in ast.walk(f) if isinstance(n, ast.Call) and src_of(n.func) == 'itertools.groupby']
        c = only(calls, 'join_groupbys: itertools.groupby')
        if len(c.args) != 2 or src_of(c.args[0]) != 'itertools.chain.from_iterable(grouped_generator)' or not isinstance(c.args[1], ast.Lambda):
            raise Unsupported('join_groupbys: %s' % src_of(c))
        body = c.args[1].body
        if not (isinstance(body, ast.Subscript) and src_of(body.value) == c.args[1].args.args[0].arg and isinstance(body.slice, ast.Constant)):
            raise Unsupported('join_groupbys: key function %s' % src_of(c.args[1]))
        inner = find_function(f, 'f')
        srcs = [src_of(s) for s in inner.body]
        if len(srcs) != 2 or srcs[1] != 'return np.concatenate(groups_)':
            raise Unsupported('join_groupbys: inner f is %s' % srcs)
        lc = inner.body[0].value
        if not (isinstance(lc, ast.ListComp) and src_of(lc.generators[0].iter) == 'groups' and isinstance(lc.elt, ast.Subscript)
                and src_of(lc.elt.value) == src_of(lc.generators[0].target) and isinstance(lc.elt.slice, ast.Constant)):
            raise Unsupported('join_groupbys: payload selection %s' % src_of(lc))
        return (zdef('gen_join_key_field', [], str(int(body.slice.value)))
                + zdef('gen_join_payload_field', [], str(int(lc.elt.slice.value))))
    emit(defs, 'gen_join_key_field', join)


# ----------------------------------------------------------------------------- operand order of ufuncs; stranded windows
def order_defs(defs):
    def node_ufunc():
        f = find_function(parse(FILES['cg']), 'Node.__array_ufunc__')
        for n in ast.walk(f):
            if isinstance(n, (ast.Assign, ast.AugAssign, ast.AnnAssign)):
                targets = n.targets if isinstance(n, ast.Assign) else [n.target]
                if any('args' == src_of(t) for t in targets):
                    raise Unsupported('Node.__array_ufunc__ re-binds its operand list `args`')
        r = only([n for n in ast.walk(f) if isinstance(n, ast.Return)], 'Node.__array_ufunc__: return')
        c = r.value
        if not (isinstance(c, ast.Call) and src_of(c.func) == 'ComputationNode' and len(c.args) >= 2
                and src_of(c.args[0]) == 'ufunc' and src_of(c.args[1]) == 'args'):
            raise Unsupported('Node.__array_ufunc__ does not return ComputationNode(ufunc, args, ...): %s' % src_of(c))
        if f.args.vararg is None or f.args.vararg.arg != 'args':
            raise Unsupported('Node.__array_ufunc__: operands are not *args')
        return sdef('gen_ufunc_operand_order', 'as_written')
    emit(defs, 'gen_ufunc_operand_order', node_ufunc)

    def track_ufunc():
        f = find_function(parse(FILES['gt']), 'GenomicArrayNode.__array_ufunc__')
        v = only(assign_to(f.body, 'args'), 'GenomicArrayNode.__array_ufunc__: args = ...')
        if not (isinstance(v, ast.ListComp) and len(v.generators) == 1 and src_of(v.generators[0].iter) == 'inputs'
                and not v.generators[0].ifs and isinstance(v.elt, ast.IfExp)
                and src_of(v.elt.body) == src_of(v.generators[0].target) + '._run_length_node'
                and src_of(v.elt.orelse) == src_of(v.generators[0].target)):
            raise Unsupported('GenomicArrayNode.__array_ufunc__: operands are %s' % src_of(v))
        r = only([n for n in ast.walk(f) if isinstance(n, ast.Return)], 'return')
        if 'ufunc(*args, **kwargs)' not in src_of(r.value):
            raise Unsupported('GenomicArrayNode.__array_ufunc__ does not call ufunc(*args, **kwargs)')
        return sdef('gen_track_ufunc_operand_order', 'as_written')
    emit(defs, 'gen_track_ufunc_operand_order', track_ufunc)

    def orientation(func, strand_src, name):
        rets = [n for n in ast.walk(func) if isinstance(n, ast.Return)]
        w = [r.value for r in rets if isinstance(r.value, ast.Call) and src_of(r.value.func) == 'np.where']
        c = only(w, '%s: return np.where(...)' % name)
        if len(c.args) != 3 or [src_of(a) for a in c.args[1:]] != ['rle', 'r']:
            raise Unsupported('%s: np.where branches are %s' % (name, [src_of(a) for a in c.args[1:]]))
        r_def = [src_of(n.value) for n in ast.walk(func) if isinstance(n, ast.Assign) and src_of(n.targets[0]) == 'r']
        if r_def != ['rle[:, ::-1]']:
            raise Unsupported('%s: r is %s' % (name, r_def))
        cond = c.args[0]
        if not (isinstance(cond, ast.Subscript) and src_of(cond.slice) == '(slice(None, None, None), np.newaxis)'
                or src_of(cond).endswith('[:, np.newaxis]')):
            raise Unsupported('%s: condition %s' % (name, src_of(cond)))
        inner = cond.value
        if not (isinstance(inner, ast.Compare) and len(inner.ops) == 1 and isinstance(inner.ops[0], ast.Eq)
                and src_of(inner.left) == strand_src and isinstance(inner.comparators[0], ast.Constant)
                and isinstance(inner.comparators[0].value, str)):
            raise Unsupported('%s: condition %s' % (name, src_of(cond)))
        return sdef(name, inner.comparators[0].value)          # rows with this strand stay forward, all others are reversed

    def streamed():
        f = find_function(parse(FILES['gt']), 'GenomicArrayNode.extract_intervals')
        return orientation(find_function(f, 'stranded_func'), 'strand', 'gen_stranded_forward_symbol')
    emit(defs, 'gen_stranded_forward_symbol', streamed)

    def in_memory():
        f = find_function(parse(FILES['gt']), 'GenomicArrayGlobal.extract_intervals')
        return orientation(f, 'intervals.strand.ravel()', 'gen_stranded_forward_symbol_mem')
    emit(defs, 'gen_stranded_forward_symbol_mem', in_memory)


# ----------------------------------------------------------------------------- get_windows keyword forms, clip, blocked counting
def window_defs(defs):
    def parts(cls):
        f = find_function(parse(FILES['gi']), cls + '.get_windows')
        top = only([st for st in f.body if isinstance(st, ast.If) and src_of(st.test) == 'flank is not None'],
                   '%s.get_windows: `if flank is not None`' % cls)
        for n in ast.walk(f):
            if isinstance(n, (ast.Assign, ast.AugAssign)):
                for t in (n.targets if isinstance(n, ast.Assign) else [n.target]):
                    if src_of(t) in ('flank', 'window_size'):
                        raise Unsupported('%s.get_windows re-binds %s' % (cls, src_of(t)))
        all_l = [n for n in ast.walk(f) if isinstance(n, ast.Assign) and src_of(n.targets[0]) == 'l_flank']
        all_r = [n for n in ast.walk(f) if isinstance(n, ast.Assign) and src_of(n.targets[0]) == 'r_flank']
        if len(all_l) != 2 or len(all_r) != 2:
            raise Unsupported('%s.get_windows: l_flank / r_flank are not assigned once per keyword form' % cls)
        return f, top
    for cls, sfx in (('GenomicLocationStreamed', 'str'), ('GenomicLocationGlobal', 'mem')):
        for side in ('l', 'r'):
            for form, branch, param in (('f', 'body', 'flank'), ('w', 'orelse', 'window_size')):
                name = 'gen_win_%s_%s_%s' % (side, form, sfx)

                def one(cls=cls, side=side, branch=branch, param=param, name=name):
                    f, top = parts(cls)
                    v = only(assign_to(getattr(top, branch), side + '_flank'), '%s_flank in the %s branch' % (side, param))
                    return zdef(name, [param], K(f, {}).z(v, [param]))
                emit(defs, name, one)

        def bounds(cls=cls, sfx=sfx):
            f, _ = parts(cls)
            calls = [n for n in ast.walk(f) if isinstance(n, ast.Call) and
                     (src_of(n.func) == 'Interval' or (src_of(n.func) == 'ComputationNode' and n.args and src_of(n.args[0]) == 'Interval'))]
            c = only(calls, '%s.get_windows: the unstranded Interval(...)' % cls)
            args = c.args if src_of(c.func) == 'Interval' else c.args[1].elts
            if len(args) != 3 or src_of(args[0]) != 'self.chromosome':
                raise Unsupported('%s.get_windows: Interval arguments %s' % (cls, [src_of(a) for a in args]))
            k = K(f, {'self.position': 'position'})
            P = ['position', 'l_flank', 'r_flank']
            return zdef('gen_win_lo_' + sfx, P, k.z(args[1], P)) + zdef('gen_win_hi_' + sfx, P, k.z(args[2], P))
        emit(defs, 'gen_win_lo_' + sfx, bounds)

    def clip():
        f = find_function(parse(FILES['ai']), 'clip')
        r = only([n for n in ast.walk(f) if isinstance(n, ast.Return)], 'clip: return')
        c = r.value
        if not (isinstance(c, ast.Call) and src_of(c.func) == 'replace' and [src_of(a) for a in c.args] == ['intervals']
                and sorted(kw.arg for kw in c.keywords) == ['start', 'stop']):
            raise Unsupported('clip does not return replace(intervals, start=..., stop=...)')
        kws = {kw.arg: kw.value for kw in c.keywords}
        k = K(f, {'intervals.start': 'start', 'intervals.stop': 'stop', 'chrom_sizes': 'size'})
        return (zdef('gen_clip_start', ['start', 'size'], k.z(kws['start'], ['start', 'size']))
                + zdef('gen_clip_stop', ['stop', 'size'], k.z(kws['stop'], ['stop', 'size'])))
    emit(defs, 'gen_clip_start', clip)

    def blocks():
        f = find_function(parse(FILES['cnt']), 'count_encoded')
        mx = only([n for n in ast.walk(f) if isinstance(n, ast.Assign) and src_of(n.targets[0]) == 'max_size'], 'max_size = ...')
        if not (isinstance(mx.value, ast.Constant) and isinstance(mx.value.value, int)):
            raise Unsupported('max_size is not an integer constant')
        test = only([n for n in ast.walk(f) if isinstance(n, ast.If) and 'max_size' in src_of(n.test)], 'block test')
        t = test.test
        if not (isinstance(t, ast.BoolOp) and isinstance(t.op, ast.And) and len(t.values) == 2 and src_of(t.values[1]) == 'weights is None'):
            raise Unsupported('count_encoded: block test is %s' % src_of(t))
        v = only(assign_to(test.body, 'counts'), 'counts = sum(...) in the block branch')
        if not (isinstance(v, ast.Call) and src_of(v.func) == 'sum' and len(v.args) == 1 and isinstance(v.args[0], ast.GeneratorExp)):
            raise Unsupported('count_encoded: blocks are not summed: %s' % src_of(v))
        g = v.args[0]
        gen = g.generators[0]
        e = g.elt
        if not (isinstance(gen.iter, ast.Call) and src_of(gen.iter.func) == 'range' and len(gen.iter.args) == 1 and not gen.ifs
                and src_of(gen.target) == 'i' and isinstance(e, ast.Call) and src_of(e.func) == 'np.bincount'
                and is_slice(e.args[0], 'values', True, True)):
            raise Unsupported('count_encoded: block loop is %s' % src_of(g))
        k = K(f, {'len(values)': 'n'})
        P = ['n', 'max_size']
        return (zdef('gen_ceb_max', [], str(mx.value.value))
                + bdef('gen_ceb_cond', P, k.b(t.values[0], P))
                + zdef('gen_ceb_nblocks', P, k.z(gen.iter.args[0], P))
                + zdef('gen_ceb_lo', ['i', 'max_size'], k.z(e.args[0].slice.lower, ['i', 'max_size']))
                + zdef('gen_ceb_hi', ['i', 'max_size'], k.z(e.args[0].slice.upper, ['i', 'max_size'])))
    emit(defs, 'gen_ceb_max', blocks)


def gen():
    defs = ['From Coq Require Import Bool.\n']
    ce_defs(defs)
    cl_defs(defs)
    red_defs(defs)
    cg_defs(defs)
    gb_defs(defs)
    order_defs(defs)
    window_defs(defs)
    return ', '.join(FILES[k] for k in ('ce', 'parser', 'red', 'cg', 'gb', 'gt', 'gi', 'ai', 'cnt')), defs

"""gen_c09 — regenerates coq/theories/Gen/C09.v from bionumpy/arithmetics/intervals.py
(GenomicRunLengthArray.from_bedgraph / from_intervals / to_array), bionumpy/genomic_data/genomic_track.py
(slice bounds of to_dict / extract_chromsome / get_data) and bionumpy/genomic_data/global_offset.py
(offset table, local -> global coordinates and their range checks).

Reading conventions (stated in notes/C09.md):
* element-wise NumPy expressions over equally shaped arrays are read per element: the array leaves
  (`bedgraph.start[1:]`, `bedgraph.stop[:-1]`, `values[:-1]`, `interval.start`, ...) are renamed BY THEIR EXACT
  SOURCE TEXT to scalar parameters, so a changed slice leaves the subset;
* branch conditions become `bool` definitions, appended / literal lists become `list Z` definitions;
* a strided slice assignment `a[lo::2] = x` / `a[lo:-1:2] = x` is read as the slot function `i |-> lo + 2*i`;
* the control skeleton around the formulas (which array is inserted into, which names are passed on) is
  recorded as a list of source strings that the bridge compares with the list the model was written against.
Everything outside these shapes raises Unsupported and the definition is emitted as `unit` (the bridge lemma
then fails to type-check): fail closed, never a guess.
"""
import ast
import os

from translate.py2coq import Kernel, Unsupported, find_function, src_of

REPO = os.environ.get('VERIF_REPO', '/repo')
CMP = {ast.Lt: '<?', ast.LtE: '<=?', ast.Gt: '>?', ast.GtE: '>=?', ast.Eq: '=?'}
PRELUDE = 'From Coq Require Import List Bool.\nFrom BNP Require Import Base.Prims.\nImport ListNotations.\n'


def parse(rel):
    return ast.parse(open(os.path.join(REPO, rel)).read())


class K(Kernel):
    """Kernel + boolean expressions (comparisons incl. !=, and/or/not) + list literals, all fail-closed."""

    def zexpr(self, node, params):
        deps = []
        t = self.expr(node, params, deps)
        if deps:
            raise Unsupported('expression reads locals %s: %s' % (deps, src_of(node)))
        return t

    def bexpr(self, node, params):
        if isinstance(node, ast.Compare) and len(node.ops) == 1 and len(node.comparators) == 1:
            l = self.zexpr(node.left, params)
            r = self.zexpr(node.comparators[0], params)
            if type(node.ops[0]) in CMP:
                return '(%s %s %s)' % (l, CMP[type(node.ops[0])], r)
            if isinstance(node.ops[0], ast.NotEq):
                return '(negb (%s =? %s))' % (l, r)
        if isinstance(node, ast.BoolOp) and len(node.values) == 2:
            f = 'orb' if isinstance(node.op, ast.Or) else 'andb'
            return '(%s %s %s)' % (f, self.bexpr(node.values[0], params), self.bexpr(node.values[1], params))
        if isinstance(node, ast.UnaryOp) and isinstance(node.op, ast.Not):
            return '(negb %s)' % self.bexpr(node.operand, params)
        raise Unsupported('boolean expression outside the subset: %s' % src_of(node))

    def zlist(self, node, params):
        """a list literal [a, b] -> [a; b]; a scalar expression -> [a]; np.zeros(k, ...) -> k zeros."""
        if isinstance(node, ast.List):
            return '[' + '; '.join(self.zexpr(e, params) for e in node.elts) + ']'
        if isinstance(node, ast.Call) and src_of(node.func) == 'np.zeros' and node.args \
                and isinstance(node.args[0], ast.Constant) and isinstance(node.args[0].value, int) \
                and 0 <= node.args[0].value <= 4 and all(k.arg == 'dtype' for k in node.keywords) and len(node.args) == 1:
            return '[' + '; '.join(['0'] * node.args[0].value) + ']'
        return '[' + self.zexpr(node, params) + ']'

    @staticmethod
    def sig(params, ty='Z'):
        return ' '.join('(%s : %s)' % (p, ty) for p in params)

    def zdef(self, name, params, node):
        return 'Definition %s %s : Z :=\n  %s.\n' % (name, self.sig(params), self.zexpr(node, params))

    def bdef(self, name, params, node):
        return 'Definition %s %s : bool :=\n  %s.\n' % (name, self.sig(params), self.bexpr(node, params))

    def ldef(self, name, params, node):
        return 'Definition %s %s : list Z :=\n  %s.\n' % (name, self.sig(params), self.zlist(node, params))


def emit(defs, name, fn):
    try:
        defs.append(fn())
    except Unsupported as e:
        defs.append('(* NOT TRANSLATED: %s *)\nDefinition %s : unit := tt.\n' % (str(e).replace('*)', '* )'), name))
    except Exception as e:
        defs.append('(* NOT TRANSLATED: %s: %s *)\nDefinition %s : unit := tt.\n' % (type(e).__name__, str(e).replace('*)', '* )'), name))


def cstr(s):
    return '"%s"%%string' % s.replace('"', '""')


def strlist_def(name, xs):
    return 'Definition %s : list string :=\n  [%s].\n' % (name, ';\n   '.join(cstr(x) for x in xs))


def assigns_to(func, target):
    """all Assign statements (anywhere in func) whose single target has this source text."""
    out = []
    for n in ast.walk(func):
        if isinstance(n, ast.Assign) and len(n.targets) == 1:
            t = n.targets[0]
            if src_of(t) == target:
                out.append(n.value)
            elif isinstance(t, ast.Tuple) and isinstance(n.value, ast.Tuple) and len(t.elts) == len(n.value.elts):
                for a, b in zip(t.elts, n.value.elts):
                    if src_of(a) == target:
                        out.append(b)
    return out


def only(xs, what):
    if len(xs) != 1:
        raise Unsupported('%s: expected exactly one, found %d' % (what, len(xs)))
    return xs[0]


def ifs_with_test(func, pred, what):
    return only([n for n in ast.walk(func) if isinstance(n, ast.If) and pred(n.test)], what)


def call_of(node, fname, nargs, what):
    if not (isinstance(node, ast.Call) and src_of(node.func) == fname and len(node.args) == nargs):
        raise Unsupported('%s is not %s(...) with %d arguments: %s' % (what, fname, nargs, src_of(node)))
    return node


def body_assign(stmts, target, what):
    """the value assigned to `target` directly in this statement list (exactly once)."""
    vals = []
    for s in stmts:
        if isinstance(s, ast.Assign) and len(s.targets) == 1:
            t = s.targets[0]
            if src_of(t) == target:
                vals.append(s.value)
            elif isinstance(t, ast.Tuple) and isinstance(s.value, ast.Tuple) and len(t.elts) == len(s.value.elts):
                for a, b in zip(t.elts, s.value.elts):
                    if src_of(a) == target:
                        vals.append(b)
    return only(vals, what)


def slot(k, sub, params, what):
    """`a[lo::2]` or `a[lo:-1:2]` or `a[::2]`  ->  text of lo (0 when absent); the step must be the constant 2."""
    if not (isinstance(sub, ast.Subscript) and isinstance(sub.slice, ast.Slice)):
        raise Unsupported('%s: not a slice assignment: %s' % (what, src_of(sub)))
    sl = sub.slice
    if not (isinstance(sl.step, ast.Constant) and sl.step.value == 2):
        raise Unsupported('%s: step is not 2: %s' % (what, src_of(sub)))
    if sl.upper is not None and src_of(sl.upper) != '-1':
        raise Unsupported('%s: upper bound is neither absent nor -1: %s' % (what, src_of(sub)))
    return '0' if sl.lower is None else k.zexpr(sl.lower, params)


# ======================================================================================== from_bedgraph
def gen_from_bedgraph(tree, defs):
    Q = 'GenomicRunLengthArray.from_bedgraph'

    def f():
        return find_function(tree, Q)

    def empty_branch():
        fn = f()
        br = ifs_with_test(fn, lambda t: src_of(t) == 'len(bedgraph) == 0', 'from_bedgraph: `if len(bedgraph) == 0`')
        ret = only([s for s in br.body if isinstance(s, ast.Return)], 'from_bedgraph: return in the empty branch')
        c = call_of(ret.value, 'cls', 2, 'empty-branch result')
        ev = call_of(c.args[0], 'np.array', 1, 'empty-branch events')
        va = call_of(c.args[1], 'np.array', 1, 'empty-branch values')
        k = K(fn, {})
        return (k.ldef('gen_bg_empty_events', ['size'], ev.args[0]) + '\n' + k.ldef('gen_bg_empty_values', [], va.args[0]))
    emit(defs, 'gen_bg_empty_events', empty_branch)

    def is_gap():
        fn = f()
        v = only(assigns_to(fn, 'missing_idx'), 'from_bedgraph: missing_idx')
        c = call_of(v, 'np.flatnonzero', 1, 'missing_idx')
        k = K(fn, {'bedgraph.start[1:]': 'next_start', 'bedgraph.stop[:-1]': 'prev_stop'})
        return k.bdef('gen_bg_is_gap', ['next_start', 'prev_stop'], c.args[0])
    emit(defs, 'gen_bg_is_gap', is_gap)

    def gap_insert():
        fn = f()
        br = ifs_with_test(fn, lambda t: src_of(t) == 'len(missing_idx)', 'from_bedgraph: `if len(missing_idx)`')
        st = call_of(body_assign(br.body, 'start', 'start in the gap branch'), 'np.insert', 3, 'start')
        va = call_of(body_assign(br.body, 'value', 'value in the gap branch'), 'np.insert', 3, 'value')
        if src_of(st.args[1]) != src_of(va.args[1]):
            raise Unsupported('from_bedgraph: start and value are inserted at different positions')
        k = K(fn, {})
        shape = [src_of(st.args[0]), src_of(st.args[2]), src_of(va.args[0]),
                 src_of(body_assign(br.orelse, 'start', 'start without gaps')), src_of(body_assign(br.orelse, 'value', 'value without gaps'))]
        return (k.zdef('gen_bg_gap_pos', ['missing_idx'], st.args[1]) + '\n'
                + k.zdef('gen_bg_gap_value', [], va.args[2]) + '\n'
                + strlist_def('gen_bg_gap_shape', shape))
    emit(defs, 'gen_bg_gap_pos', gap_insert)

    def fits():
        fn = f()
        a = only([n for n in ast.walk(fn) if isinstance(n, ast.Assert) and 'bedgraph.stop[-1]' in src_of(n.test)],
                 'from_bedgraph: assertion on the last stop')
        k = K(fn, {'bedgraph.stop[-1]': 'last_stop'})
        return k.bdef('gen_bg_fits', ['last_stop', 'size'], a.test)
    emit(defs, 'gen_bg_fits', fits)

    def tail_if():
        fn = f()
        return fn, ifs_with_test(fn, lambda t: isinstance(t, ast.BoolOp) and 'bedgraph.stop[-1]' in src_of(t),
                                 'from_bedgraph: the `size == stop[-1]` branch')

    def ends_at_size():
        fn, br = tail_if()
        t = br.test
        # `(size is None) or (size == bedgraph.stop[-1])`: the model always passes a size, so the first disjunct is dropped
        if not (isinstance(t.op, ast.Or) and len(t.values) == 2 and src_of(t.values[0]) == 'size is None'):
            raise Unsupported('from_bedgraph: branch test is not `(size is None) or (...)`: %s' % src_of(t))
        k = K(fn, {'bedgraph.stop[-1]': 'last_stop'})
        return k.bdef('gen_bg_ends_at_size', ['size', 'last_stop'], t.values[1])
    emit(defs, 'gen_bg_ends_at_size', ends_at_size)

    def tails():
        fn, br = tail_if()
        k = K(fn, {'bedgraph.stop[-1]': 'last_stop'})
        e1 = call_of(body_assign(br.body, 'events', 'events (ends at size)'), 'np.append', 2, 'events')
        v1 = body_assign(br.body, 'values', 'values (ends at size)')
        e2 = call_of(body_assign(br.orelse, 'events', 'events (ends before size)'), 'np.append', 2, 'events')
        v2 = call_of(body_assign(br.orelse, 'values', 'values (ends before size)'), 'np.append', 2, 'values')
        shape = [src_of(e1.args[0]), src_of(v1), src_of(e2.args[0]), src_of(v2.args[0])]
        return (k.ldef('gen_bg_tail_at', ['size', 'last_stop'], e1.args[1]) + '\n'
                + k.ldef('gen_bg_tail_before', ['size', 'last_stop'], e2.args[1]) + '\n'
                + k.ldef('gen_bg_tail_values_before', [], v2.args[1]) + '\n'
                + strlist_def('gen_bg_tail_shape', shape))
    emit(defs, 'gen_bg_tail_at', tails)

    def prefix():
        fn = f()
        br = ifs_with_test(fn, lambda t: 'events[0]' in src_of(t), 'from_bedgraph: the `events[0]` branch')
        if br.orelse:
            raise Unsupported('from_bedgraph: the events[0] branch has an else part')
        k = K(fn, {'events[0]': 'e0'})
        ev = call_of(body_assign(br.body, 'events', 'events (prefix)'), 'np.insert', 3, 'events')
        va = call_of(body_assign(br.body, 'values', 'values (prefix)'), 'np.insert', 3, 'values')
        if src_of(ev.args[1]) != src_of(va.args[1]):
            raise Unsupported('from_bedgraph: prefix event and value are inserted at different positions')
        ret = only([s for s in fn.body if isinstance(s, ast.Return)], 'from_bedgraph: final return')
        shape = [src_of(ev.args[0]), src_of(va.args[0]), src_of(ret.value)]
        return (k.bdef('gen_bg_needs_prefix', ['e0'], br.test) + '\n'
                + k.zdef('gen_bg_prefix_pos', [], ev.args[1]) + '\n'
                + k.zdef('gen_bg_prefix_event', [], ev.args[2]) + '\n'
                + k.zdef('gen_bg_prefix_value', [], va.args[2]) + '\n'
                + strlist_def('gen_bg_prefix_shape', shape))
    emit(defs, 'gen_bg_needs_prefix', prefix)


# ======================================================================================== from_intervals
def gen_from_intervals(tree, defs):
    Q = 'GenomicRunLengthArray.from_intervals'

    def f():
        return find_function(tree, Q)

    def asserts():
        fn = f()
        a = [n for n in fn.body if isinstance(n, ast.Assert)]
        if len(a) != 2:
            raise Unsupported('from_intervals: expected two assert statements, found %d' % len(a))
        out = []
        for node, name, ren, params in (
                (a[0], 'gen_iv_assert_nonempty', {'ends': 'stop', 'starts': 'start'}, ['stop', 'start']),
                (a[1], 'gen_iv_assert_ordered', {'starts[1:]': 'next_start', 'ends[:-1]': 'prev_stop'}, ['next_start', 'prev_stop'])):
            c = call_of(node.test, 'np.all', 1, 'assertion')
            out.append(K(fn, ren).bdef(name, params, c.args[0]))
        return '\n'.join(out)
    emit(defs, 'gen_iv_assert_nonempty', asserts)

    def fix(name, target, ren, params, lname):
        fn = f()
        v = only(assigns_to(fn, target), 'from_intervals: ' + target)
        if not (isinstance(v, ast.IfExp) and src_of(v.orelse) == '[]'):
            raise Unsupported('from_intervals: %s is not `[x] if cond else []`: %s' % (target, src_of(v)))
        k = K(fn, ren)
        return k.bdef(name, params, v.test) + '\n' + k.ldef(lname, ['size'], v.body)
    emit(defs, 'gen_iv_has_prefix', lambda: fix('gen_iv_has_prefix', 'prefix', {'len(starts)': 'n_starts', 'starts[0]': 'first_start'},
                                                ['n_starts', 'first_start'], 'gen_iv_prefix'))
    emit(defs, 'gen_iv_has_postfix', lambda: fix('gen_iv_has_postfix', 'postfix', {'len(ends)': 'n_ends', 'ends[-1]': 'last_stop'},
                                                 ['n_ends', 'last_stop', 'size'], 'gen_iv_postfix'))

    def n_events():
        fn = f()
        v = call_of(only(assigns_to(fn, 'events'), 'from_intervals: events'), 'np.empty', 1, 'events')
        k = K(fn, {'len(prefix)': 'n_prefix', 'len(postfix)': 'n_postfix', 'starts.size': 'n_starts', 'ends.size': 'n_ends'})
        return k.zdef('gen_iv_n_events', ['n_prefix', 'n_postfix', 'n_starts', 'n_ends'], v.args[0])
    emit(defs, 'gen_iv_n_events', n_events)

    def slots():
        fn = f()
        br = ifs_with_test(fn, lambda t: src_of(t) == 'len(postfix)', 'from_intervals: `if len(postfix)`')
        k = K(fn, {'len(prefix)': 'n_prefix'})

        def slot_of(stmts, rhs, what):
            hits = [s for s in stmts if isinstance(s, ast.Assign) and len(s.targets) == 1 and src_of(s.value) == rhs
                    and isinstance(s.targets[0], ast.Subscript) and src_of(s.targets[0].value) == 'events']
            return slot(k, only(hits, what).targets[0], ['n_prefix'], what)
        out = []
        for rhs, name in (('starts', 'gen_iv_start_slot'), ('ends', 'gen_iv_end_slot')):
            a = slot_of(br.body, rhs, 'events[...] = %s (with postfix)' % rhs)
            b = slot_of(br.orelse, rhs, 'events[...] = %s (without postfix)' % rhs)
            if a != b:
                raise Unsupported('from_intervals: %s are written at different slots in the two branches' % rhs)
            out.append('Definition %s (n_prefix : Z) (i : Z) : Z :=\n  (%s + 2 * i).\n' % (name, a))
        # first / last event
        pre = ifs_with_test(fn, lambda t: src_of(t) == 'len(prefix)', 'from_intervals: `if len(prefix)`')
        shape = [src_of(s) for s in pre.body] + [src_of(s) for s in br.body
                                                  if isinstance(s, ast.Assign) and src_of(s.targets[0]) == 'events[-1]']
        out.append(strlist_def('gen_iv_edge_shape', shape))
        return '\n'.join(out)
    emit(defs, 'gen_iv_start_slot', slots)

    def scalar_values():
        fn = f()
        br = ifs_with_test(fn, lambda t: src_of(t) == 'isinstance(values, Number)', 'from_intervals: scalar branch')
        k = K(fn, {'events.size': 'n_events'})
        v = call_of(body_assign(br.body, 'values', 'values (scalar)'), 'np.empty', 1, 'values')

        def vslot(rhs, what):
            hits = [s for s in br.body if isinstance(s, ast.Assign) and len(s.targets) == 1 and src_of(s.value) == rhs
                    and isinstance(s.targets[0], ast.Subscript) and src_of(s.targets[0].value) == 'values']
            return slot(k, only(hits, what).targets[0], [], what)
        if src_of(only(assigns_to(fn, 'tmp'), 'tmp')) != 'values':
            raise Unsupported('from_intervals: tmp is not the values argument')
        return (k.zdef('gen_iv_n_values', ['n_events'], v.args[0]) + '\n'
                + 'Definition gen_iv_default_slot (i : Z) : Z :=\n  (%s + 2 * i).\n' % vslot('default_value', 'values[...] = default_value') + '\n'
                + 'Definition gen_iv_value_slot (i : Z) : Z :=\n  (%s + 2 * i).\n' % vslot('tmp', 'values[...] = tmp'))
    emit(defs, 'gen_iv_n_values', scalar_values)

    def array_values():
        fn = f()
        br = ifs_with_test(fn, lambda t: src_of(t) == 'isinstance(values, Number)', 'from_intervals: scalar branch')
        v = call_of(body_assign(br.orelse, 'values', 'values (array)'), 'interleave', 2, 'values')
        d = call_of(v.args[0], 'np.full', 2, 'default column')
        inner = only([s for s in br.orelse if isinstance(s, ast.If)], 'from_intervals: trailing default (array values)')
        k = K(fn, {'ends[-1]': 'last_stop'})
        ap = call_of(body_assign(inner.body, 'values', 'values (trailing default)'), 'np.append', 2, 'values')
        shape = [src_of(d.args[0]), src_of(d.args[1]), src_of(v.args[1]), src_of(ap.args[0]),
                 src_of(ap.args[1].args[0]) if isinstance(ap.args[1], ast.Call) and src_of(ap.args[1].func) == 'np.asarray' and ap.args[1].args else src_of(ap.args[1])]
        return k.bdef('gen_iv_array_trailing_default', ['last_stop', 'size'], inner.test) + '\n' + strlist_def('gen_iv_array_shape', shape)
    emit(defs, 'gen_iv_array_trailing_default', array_values)

    def trims():
        fn = f()
        br = ifs_with_test(fn, lambda t: isinstance(t, ast.BoolOp) and 'starts[0] == 0' in src_of(t), 'from_intervals: drop-first branch')
        k = K(fn, {'len(starts)': 'n_starts', 'starts[0]': 'first_start', 'len(events)': 'n_events'})
        d = body_assign(br.body, 'values', 'values (drop first)')
        if not (isinstance(d, ast.Subscript) and src_of(d.value) == 'values' and isinstance(d.slice, ast.Slice)
                and d.slice.upper is None and d.slice.step is None and d.slice.lower is not None):
            raise Unsupported('from_intervals: drop-first is not values[k:]: %s' % src_of(d))
        # the truncation is the last assignment to `values` at function level
        top = [s.value for s in fn.body if isinstance(s, ast.Assign) and src_of(s.targets[0]) == 'values']
        if not top:
            raise Unsupported('from_intervals: no top-level truncation of values')
        t = top[-1]
        if not (isinstance(t, ast.Subscript) and src_of(t.value) == 'values' and isinstance(t.slice, ast.Slice)
                and t.slice.lower is None and t.slice.step is None and t.slice.upper is not None):
            raise Unsupported('from_intervals: truncation is not values[:k]: %s' % src_of(t))
        ret = only([s for s in fn.body if isinstance(s, ast.Return)], 'from_intervals: return')
        return (k.bdef('gen_iv_drop_first', ['n_starts', 'first_start'], br.test) + '\n'
                + k.zdef('gen_iv_drop_count', [], d.slice.lower) + '\n'
                + k.zdef('gen_iv_keep', ['n_events'], t.slice.upper) + '\n'
                + strlist_def('gen_iv_return_shape', [src_of(ret.value)]))
    emit(defs, 'gen_iv_drop_first', trims)


# ======================================================================================== to_array
def gen_to_array(tree, defs):
    def ta():
        fn = find_function(tree, 'GenomicRunLengthArray.to_array')
        op = only(assigns_to(fn, 'op'), 'to_array: op')
        if not (isinstance(op, ast.IfExp) and src_of(op.body) == 'np.logical_xor' and src_of(op.orelse) == 'np.bitwise_xor'):
            raise Unsupported('to_array: op is not logical_xor / bitwise_xor: %s' % src_of(op))
        d = call_of(only(assigns_to(fn, 'diffs'), 'to_array: diffs'), 'op', 2, 'diffs')
        if [src_of(a) for a in d.args] != ['values[:-1]', 'values[1:]']:
            raise Unsupported('to_array: diffs is not op(values[:-1], values[1:]): %s' % src_of(d))
        scat = []
        for s in fn.body:
            if isinstance(s, ast.Assign) and isinstance(s.targets[0], ast.Subscript) and src_of(s.targets[0].value) == 'array':
                scat.append('%s <- %s' % (src_of(s.targets[0].slice), src_of(s.value)))
        acc = [src_of(s.value) for s in fn.body if isinstance(s, ast.Expr) and 'accumulate' in src_of(s.value)]
        ret = [src_of(s.value) for s in fn.body if isinstance(s, ast.Return)]
        zero = only(assigns_to(fn, 'array'), 'to_array: array')
        return ('Definition gen_ta_diff (prev : Z) (next : Z) : Z :=\n  (Z.lxor prev next).\n\n'
                + strlist_def('gen_ta_shape', [src_of(zero)] + scat + acc + ret))
    emit(defs, 'gen_ta_diff', ta)


# ======================================================================================== genomic_track.py / global_offset.py
def gen_track(defs):
    try:
        tree = parse('bionumpy/genomic_data/genomic_track.py')
    except Exception:
        tree = ast.parse('')

    def bounds(qual, prefix, ren, params, pick):
        def go():
            fn = find_function(tree, qual)
            subs = [n for n in ast.walk(fn) if isinstance(n, ast.Subscript) and src_of(n.value) == 'self._global_track'
                    and isinstance(n.slice, ast.Slice)]
            s = only(subs, '%s: slice of the global track' % qual)
            if s.slice.step is not None or s.slice.lower is None or s.slice.upper is None:
                raise Unsupported('%s: slice is not [lo:hi]' % qual)
            k = K(fn, ren)
            extra = pick(fn, k) if pick else ''
            return (k.zdef(prefix + '_lo', params, s.slice.lower) + '\n' + k.zdef(prefix + '_hi', params, s.slice.upper) + extra)
        return go
    emit(defs, 'gen_td_lo', bounds('GenomicArrayGlobal.to_dict', 'gen_td', {}, ['offset', 'size'],
         lambda fn, k: '\n' + strlist_def('gen_td_shape', [src_of(n.generators[0].iter) + ' -> ' + src_of(n.generators[0].target)
                                                          for n in ast.walk(fn) if isinstance(n, ast.DictComp)]
                                          + [src_of(v) for t in ('offsets', 'sizes') for v in assigns_to(fn, t)])))
    emit(defs, 'gen_ec_lo', bounds('GenomicArrayGlobal.extract_chromsome', 'gen_ec',
                                   {'self._genome_context.global_offset.get_size([chromosome])[0]': 'size'}, ['offset', 'size'],
         lambda fn, k: '\n' + strlist_def('gen_ec_shape', [src_of(v) for v in assigns_to(fn, 'offset')])))

    def get_data_extra(fn, k):
        k2 = K(fn, {'go.get_size(names)': 'size'})
        loop = only([n for n in ast.walk(fn) if isinstance(n, ast.For)], 'get_data: loop')
        return ('\n' + k2.zdef('gen_gd_stop', ['starts', 'size'], only(assigns_to(fn, 'stops'), 'get_data: stops')) + '\n'
                + strlist_def('gen_gd_shape', [src_of(only(assigns_to(fn, 'starts'), 'get_data: starts')),
                                               src_of(loop.iter) + ' -> ' + src_of(loop.target)]))
    emit(defs, 'gen_gd_lo', bounds('GenomicArrayGlobal.get_data', 'gen_gd', {}, ['start', 'stop'], get_data_extra))

    def array_function():
        fn = find_function(tree, 'GenomicArrayGlobal.__array_function__')
        shape = [src_of(v) for v in assigns_to(fn, 'args')]
        for n in fn.body:
            if isinstance(n, ast.If):
                rets = [x for x in n.body if isinstance(x, ast.Return)]
                if len(rets) != 1 or n.orelse or len(n.body) != 1:
                    raise Unsupported('__array_function__: a dispatch branch is not a single return')
                shape.append(src_of(n.test) + ' -> ' + src_of(rets[0].value))
            elif isinstance(n, ast.Return):
                shape.append('-> ' + src_of(n.value))
        return strlist_def('gen_af_shape', shape)
    emit(defs, 'gen_af_shape', array_function)

    try:
        gtree = parse('bionumpy/genomic_data/global_offset.py')
    except Exception:
        gtree = ast.parse('')

    def offsets():
        fn = find_function(gtree, 'GlobalOffset.__init__')
        v = only(assigns_to(fn, 'self._offset'), 'GlobalOffset: _offset')
        c = call_of(v, 'np.insert', 3, '_offset')
        cs = call_of(c.args[0], 'np.cumsum', 1, 'cumsum')
        if src_of(cs.args[0]) != 'self._sizes':
            raise Unsupported('GlobalOffset: cumsum is not over self._sizes')
        k = K(fn, {})
        return 'Definition gen_go_offsets (sizes : list Z) : list Z :=\n  np_insert_front %s %s (cumsum sizes).\n' % (
            k.zexpr(c.args[1], []), k.zexpr(c.args[2], []))
    emit(defs, 'gen_go_offsets', offsets)

    def to_global():
        fn = find_function(gtree, 'GlobalOffset.start_ends_from_intervals')
        k = K(fn, {'interval.start': 'start', 'interval.stop': 'stop'})
        bads = [n for n in fn.body if isinstance(n, ast.If) and src_of(n.test).startswith('np.any(')]
        if len(bads) != 2 or not all(any(isinstance(s, ast.Raise) for s in b.body) and not b.orelse for b in bads):
            raise Unsupported('expected exactly two raising range checks on the starts, found %d' % len(bads))
        c = call_of(bads[0].test, 'np.any', 1, 'start range check')
        cneg = call_of(bads[1].test, 'np.any', 1, 'negative start check')
        if src_of(body_assign(fn.body, 'stop', 'stop')) != 'interval.stop':
            raise Unsupported('stop is not interval.stop (the do_clip=False path)')
        clip = only([n for n in fn.body if isinstance(n, ast.If) and src_of(n.test) == 'do_clip'], 'do_clip branch')
        a = only([s for s in clip.orelse if isinstance(s, ast.Assert)], 'stop range assertion')
        ca = call_of(a.test, 'np.all', 1, 'stop range assertion')
        k2 = K(fn, {'interval.start': 'start'})
        return (k.bdef('gen_go_start_bad', ['start', 'sizes'], c.args[0]) + '\n'
                + k.bdef('gen_go_start_negative', ['start'], cneg.args[0]) + '\n'
                + k2.bdef('gen_go_stop_ok', ['stop', 'sizes'], ca.args[0]) + '\n'
                + k2.zdef('gen_go_start', ['start', 'offsets'], only(assigns_to(fn, 'start_offsets'), 'start_offsets')) + '\n'
                + k2.zdef('gen_go_stop', ['stop', 'offsets'], only(assigns_to(fn, 'stop_offsets'), 'stop_offsets')) + '\n'
                + strlist_def('gen_go_shape', [src_of(only(assigns_to(fn, 'offsets'), 'offsets')), src_of(only(assigns_to(fn, 'sizes'), 'sizes')),
                                               src_of(only([s for s in fn.body if isinstance(s, ast.Return)], 'return').value)]))
    emit(defs, 'gen_go_start_bad', to_global)


# ======================================================================================== get_pileup
def gen_pileup(tree, defs):
    """intervals.py get_pileup: the empty-set test and result, and the hand-over to npstructures (skeleton);
    genomic_intervals.py GenomicIntervalsFull.get_pileup: shift to global coordinates, flat pileup, wrap (skeleton)."""
    def pu():
        fn = find_function(tree, 'get_pileup')
        stmts = [s for s in fn.body if not (isinstance(s, ast.Expr) and isinstance(s.value, ast.Constant))]
        if len(stmts) != 3 or not isinstance(stmts[0], ast.If) or stmts[0].orelse or not isinstance(stmts[1], ast.Assign) \
                or not isinstance(stmts[2], ast.Return):
            raise Unsupported('get_pileup: body is not `if ...: return ...; rla = ...; return ...`')
        br = stmts[0]
        ret = only([x for x in br.body if isinstance(x, ast.Return)], 'get_pileup: return in the empty branch')
        if len(br.body) != 1:
            raise Unsupported('get_pileup: the empty branch is not a single return')
        c = call_of(ret.value, 'GenomicRunLengthArray', 2, 'get_pileup: empty-branch result')
        ev = call_of(c.args[0], 'np.array', 1, 'empty-branch events')
        va = call_of(c.args[1], 'np.array', 1, 'empty-branch values')
        k = K(fn, {'len(intervals)': 'n_intervals', 'chromosome_size': 'size'})
        if src_of(stmts[1].targets[0]) != 'rla':
            raise Unsupported('get_pileup: second statement does not assign rla')
        return (k.bdef('gen_pu_is_empty', ['n_intervals'], br.test) + '\n'
                + k.ldef('gen_pu_empty_events', ['size'], ev.args[0]) + '\n' + k.ldef('gen_pu_empty_values', [], va.args[0]) + '\n'
                + strlist_def('gen_pu_shape', [src_of(c.func) + '(events, values)', src_of(stmts[1].value), src_of(stmts[2].value)]))
    emit(defs, 'gen_pu_is_empty', pu)

    def gpu():
        gi = parse('bionumpy/genomic_data/genomic_intervals.py')
        fn = find_function(gi, 'GenomicIntervalsFull.get_pileup')
        stmts = [s for s in fn.body if not (isinstance(s, ast.Expr) and isinstance(s.value, ast.Constant))]
        if len(stmts) != 2 or not isinstance(stmts[0], ast.Assign) or src_of(stmts[0].targets[0]) != 'go' or not isinstance(stmts[1], ast.Return):
            raise Unsupported('GenomicIntervalsFull.get_pileup: body is not `go = ...; return ...`')
        return strlist_def('gen_gpu_shape', [src_of(stmts[0].value), ' '.join(src_of(stmts[1].value).split())])
    emit(defs, 'gen_gpu_shape', gpu)


def gen():
    rel = 'bionumpy/arithmetics/intervals.py (+ genomic_data/genomic_track.py, genomic_data/global_offset.py)'
    try:
        tree = parse('bionumpy/arithmetics/intervals.py')
    except Exception:
        tree = ast.parse('')
    defs = [PRELUDE + 'Definition np_insert_front (pos v : Z) (l : list Z) : list Z := if pos =? 0 then insert0 v l else l.\n']
    gen_from_bedgraph(tree, defs)
    gen_from_intervals(tree, defs)
    gen_to_array(tree, defs)
    gen_track(defs)
    gen_pileup(tree, defs)
    return rel, defs

"""C05 — translation of the *decision rules* of the lazy table into Coq bool / Z functions.

The anchored code of C05 has no arithmetic: what carries the property is the ORDER in which the three stores are
consulted, which of them an operation indexes / copies / drops, the any/all rules of np.concatenate, the test that
selects raw pass-through in get_buffer, and the conditions under which a chunk is read lazily.  Every rule is
translated as a function of *flags* (one bool per atomic test such as `var_name in self._set_values`), fail-closed:

* conditions: `and` / `or` / `not`, `in` / `not in` / `is` / `is not` whose POSITIVE form is in the rule's atom table,
  whole-expression atoms (`hasattr(...)`, `issubclass(...)`, `isinstance(...)`), and the quantified atoms
  `any(<atom> for a in values)` / `all(<atom> for a in values)` (reading: the flag is "some / every operand satisfies
  <atom>").  Anything else raises Unsupported -> the definition is emitted as `unit` -> Bridge/C05.v stops compiling.
* statements are matched by their exact (ast.unparse) source text; a re-spelling is Unsupported (accepted cost).
* result codes: which store a value comes from — 0 = _set_values, 1 = parsed from the buffer (item getter),
  2 = _computed_values, 3 = not a field (falls through to the base class).
"""
import ast
import os

from translate.py2coq import Unsupported, find_function, src_of

REPO = os.environ.get('VERIF_REPO', '/repo')
LAZY = 'bionumpy/bnpdataclass/lazybnpdataclass.py'
READER = 'bionumpy/io/npdataclassreader.py'
DATACLASS = 'bionumpy/bnpdataclass/bnpdataclass.py'
CLS = 'create_lazy_class.NewClass.'


def parse(rel):
    return ast.parse(open(os.path.join(REPO, rel)).read())


def emit(defs, name, fn):
    try:
        defs.append(fn())
    except Unsupported as e:
        defs.append('(* NOT TRANSLATED: %s *)\nDefinition %s : unit := tt.\n' % (str(e).replace('*)', '* )'), name))
    except Exception as e:
        defs.append('(* NOT TRANSLATED: %s: %s *)\nDefinition %s : unit := tt.\n' % (type(e).__name__, str(e).replace('*)', '* )'), name))


POS = {ast.In: ('in', False), ast.NotIn: ('in', True), ast.Is: ('is', False), ast.IsNot: ('is', True)}


class BoolRule:
    def __init__(self, atoms):
        """atoms: {python source of a positive atomic test: coq flag name}"""
        self.atoms = atoms
        self.used = []

    def flag(self, text):
        if text not in self.atoms:
            raise Unsupported('atomic test not in the rule table: %s' % text)
        v = self.atoms[text]
        if v not in self.used:
            self.used.append(v)
        return v

    def cond(self, node):
        s = src_of(node)
        if s in self.atoms:
            return self.flag(s)
        if isinstance(node, ast.BoolOp) and isinstance(node.op, (ast.And, ast.Or)):
            op = 'andb' if isinstance(node.op, ast.And) else 'orb'
            vals = [self.cond(v) for v in node.values]
            txt = vals[-1]
            for v in reversed(vals[:-1]):
                txt = '(%s %s %s)' % (op, v, txt)
            return txt
        if isinstance(node, ast.UnaryOp) and isinstance(node.op, ast.Not):
            return '(negb %s)' % self.cond(node.operand)
        if isinstance(node, ast.Compare) and len(node.ops) == 1 and type(node.ops[0]) in POS:
            word, neg = POS[type(node.ops[0])]
            f = self.flag('%s %s %s' % (src_of(node.left), word, src_of(node.comparators[0])))
            return '(negb %s)' % f if neg else f
        raise Unsupported('condition outside the subset: %s' % s)

    def definition(self, coq_name, params, body, ty='bool'):
        for u in self.used:
            if u not in params:
                raise Unsupported('%s reads flag %s which is not a parameter' % (coq_name, u))
        return 'Definition %s %s : %s :=\n  %s.\n' % (coq_name, ' '.join('(%s : bool)' % p for p in params), ty, body)


def expect(node, text, what):
    if src_of(node) != text:
        raise Unsupported('%s is `%s`, expected `%s`' % (what, src_of(node), text))


def body_of(func):
    """statements of a function without its docstring"""
    b = list(func.body)
    if b and isinstance(b[0], ast.Expr) and isinstance(b[0].value, ast.Constant) and isinstance(b[0].value.value, str):
        b = b[1:]
    return b


def simple_if(st, n_body=None):
    if not (isinstance(st, ast.If) and not st.orelse):
        raise Unsupported('expected an if without else: %s' % src_of(st)[:80])
    if n_body is not None and len(st.body) != n_body:
        raise Unsupported('if body has %d statements, expected %d: %s' % (len(st.body), n_body, src_of(st)[:80]))
    return st


def bool_const(name, value):
    return 'Definition %s : bool := %s.\n' % (name, 'true' if value else 'false')


def gen():
    defs = ['From Coq Require Import Bool.\n']
    lz = parse(LAZY)
    rd = parse(READER)

    # ---- __getattr__: set_values, then the cache, else parse through _get_field and cache under the same name
    def getattr_source():
        b = body_of(find_function(lz, CLS + '__getattr__'))
        if len(b) != 3:
            raise Unsupported('__getattr__ has %d statements, expected 3' % len(b))
        rule = BoolRule({'var_name in self._set_values': 'in_set', 'var_name in field_names': 'is_field',
                         'var_name in self._computed_values': 'in_cache'})
        s0 = simple_if(b[0], 1)
        expect(s0.body[0], 'return self._set_values[var_name]', 'first return of __getattr__')
        s1 = simple_if(b[1], 2)
        inner = simple_if(s1.body[0], 2)
        expect(inner.body[0], 'value = self._get_field(var_name)', 'cache miss, first statement')
        expect(inner.body[1], 'self._computed_values[var_name] = value', 'cache miss, second statement')
        expect(s1.body[1], 'return self._computed_values[var_name]', 'return of the cached value')
        expect(b[2], 'return getattr(super(), var_name)', 'fall-through of __getattr__')
        txt = 'if %s then 0 else if %s then (if %s then 1 else 2) else 3' % (rule.cond(s0.test), rule.cond(s1.test), rule.cond(inner.test))
        return rule.definition('gen_getattr_source', ['in_set', 'is_field', 'in_cache'], txt, 'Z')
    emit(defs, 'gen_getattr_source', getattr_source)

    def get_field_from_itemgetter():
        f = find_function(lz, CLS + '_get_field')
        b = body_of(f)
        if not (len(b) == 1 and isinstance(b[0], ast.Try)):
            raise Unsupported('_get_field is not a single try')
        t = b[0].body
        expect(t[0], 'value = self._itemgetter(var_name)', 'first statement of _get_field')
        expect(t[-1], 'return value', 'return of _get_field')
        for st in t[1:-1]:           # only the flat-alphabet ravel may sit in between (same values, see notes)
            if not (isinstance(st, ast.If) and src_of(st.body[0]) == 'value = value.ravel()' and len(st.body) == 1 and not st.orelse):
                raise Unsupported('unexpected statement in _get_field: %s' % src_of(st)[:80])
        ig = find_function(lz, 'ItemGetter.__call__')
        ret = [n for n in ast.walk(ig) if isinstance(n, ast.Return)]
        if len(ret) != 1:
            raise Unsupported('ItemGetter.__call__ has %d returns' % len(ret))
        expect(ret[0], 'return self._buffer.get_field_by_number(self._field_dict[name][0], self._field_dict[name][1])', 'ItemGetter.__call__')
        return bool_const('gen_get_field_parses_buffer', True)
    emit(defs, 'gen_get_field_parses_buffer', get_field_from_itemgetter)

    # ---- __getitem__: the scalar path, and the same index applied to buffer, overlay and cache
    def getitem():
        b = body_of(find_function(lz, CLS + '__getitem__'))
        if len(b) != 4:
            raise Unsupported('__getitem__ has %d statements, expected 4' % len(b))
        s0 = simple_if(b[0], 2)
        expect(s0.test, 'isinstance(idx, Number)', 'scalar test')
        expect(s0.body[0], 'idx = [idx]', 'scalar path, first statement')
        expect(s0.body[1], 'return self[idx].get_data_object()[0]', 'scalar path, return')
        expect(b[1], 'new_dict = {key: value[idx] for key, value in self._set_values.items()}', 'overlay indexing')
        expect(b[2], 'new_computed = {key: value[idx] for key, value in self._computed_values.items()}', 'cache indexing')
        expect(b[3], 'return self.__class__(self._itemgetter[idx], new_dict, new_computed)', 'constructor call of __getitem__')
        init = find_function(lz, CLS + '__init__')
        expect(init.args, 'self, item_getter, set_values=None, computed_values=None', 'constructor signature')
        return (bool_const('gen_getitem_indexes_buffer', True) + bool_const('gen_getitem_indexes_overlay', True)
                + bool_const('gen_getitem_indexes_cache', True)
                + 'Definition gen_getitem_scalar_row : Z := 0.\n')
    emit(defs, 'gen_getitem_indexes_buffer', getitem)

    def itemgetter_getitem():
        b = body_of(find_function(lz, 'ItemGetter.__getitem__'))
        if len(b) != 1:
            raise Unsupported('ItemGetter.__getitem__ has %d statements' % len(b))
        expect(b[0], 'return self.__class__(self._buffer[idx], self._dataclass)', 'ItemGetter.__getitem__')
        init = find_function(lz, 'ItemGetter.__init__')
        if 'start_line=0' not in src_of(init.args):
            raise Unsupported('ItemGetter.__init__ has no start_line=0 default')
        return bool_const('gen_itemgetter_getitem_resets_start_line', True)
    emit(defs, 'gen_itemgetter_getitem_resets_start_line', itemgetter_getitem)

    # ---- __replace__: new columns go to the overlay (overriding older ones), the cache is not passed on
    def replace():
        b = body_of(find_function(lz, CLS + '__replace__'))
        if len(b) != 3:
            raise Unsupported('__replace__ has %d statements, expected 3' % len(b))
        expect(b[0], 'new_dict = {key: value for key, value in self._set_values.items()}', 'copy of the overlay')
        expect(b[1], 'new_dict.update(kwargs)', 'update with the new columns')
        expect(b[2], 'return self.__class__(self._itemgetter, new_dict)', 'constructor call of __replace__')
        return (bool_const('gen_replace_into_overlay', True) + bool_const('gen_replace_new_overrides_old', True)
                + bool_const('gen_replace_keeps_cache', False))
    emit(defs, 'gen_replace_into_overlay', replace)

    # ---- get_data_object: every field, in dataclass order, through __getattr__
    def data_object():
        f = find_function(lz, CLS + 'get_data_object')
        b = body_of(f)
        s0 = simple_if(b[0], 3)
        expect(s0.test, 'not self._computed', 'get_data_object guard')
        expect(s0.body[0], 'fields = [getattr(self, field.name) for field in dataclasses.fields(dataclass)]', 'field loop of get_data_object')
        expect(s0.body[1], 'self._data = dataclass(*fields)', 'construction of the data object')
        return bool_const('gen_data_object_reads_all_fields_in_order', True)
    emit(defs, 'gen_data_object_reads_all_fields_in_order', data_object)

    # ---- np.concatenate
    def concat_parts():
        f = find_function(lz, CLS + '__array_function__')
        b = body_of(f)
        # since notes/C05.fix-5.diff there is no assert on `types`: the function is the dispatch test and `return NotImplemented`
        if len(b) != 2:
            raise Unsupported('__array_function__ has %d statements, expected 2' % len(b))
        expect(b[1], 'return NotImplemented', 'fall-through of __array_function__')
        top = simple_if(b[0])
        expect(top.test, 'func == np.concatenate', 'dispatch test')
        expect(top.body[0], 'values = args[0]', 'operands')
        br = simple_if(top.body[1])
        rest = top.body[2:]
        return br, rest

    def concat_path():
        br, rest = concat_parts()
        rule = BoolRule({'all((isinstance(a, LazyBNPDataClass) for a in values))': 'all_operands_lazy',
                         "hasattr(values[0]._itemgetter.buffer, 'concatenate')": 'has_concat'})
        c = rule.cond(br.test)
        if len(rest) != 3:
            raise Unsupported('fallback of concatenate has %d statements, expected 3' % len(rest))
        expect(rest[0], 'objects = [a.get_data_object() if isinstance(a, LazyBNPDataClass) else a for a in values]', 'fallback, data objects')
        expect(rest[1], 'args = (objects,) + args[1:]', 'fallback, argument tuple')
        expect(rest[2], 'return func(*args, **kwargs)', 'fallback, eager concatenate')
        expect(br.body[-1], 'return self.__class__(self._itemgetter.concatenate([a._itemgetter for a in values]), set_values=set_values, computed_values=computed_values)',
               'constructor call of the lazy concatenate')
        return (rule.definition('gen_concat_stays_lazy', ['all_operands_lazy', 'has_concat'], c)
                + bool_const('gen_concat_requires_all_lazy', False)
                + bool_const('gen_concat_fallback_materialises_lazy_only', True))
    emit(defs, 'gen_concat_stays_lazy', concat_path)

    def concat_column():
        br, _ = concat_parts()
        col = br.body[0]
        if not (isinstance(col, ast.FunctionDef) and col.name == 'column' and src_of(col.args) == 'a, name'):
            raise Unsupported('first statement of the lazy branch is not def column(a, name)')
        b = body_of(col)
        if len(b) != 3:
            raise Unsupported('column() has %d statements' % len(b))
        rule = BoolRule({'name in a._set_values': 'in_set', 'name in a._computed_values': 'in_cache'})
        s0, s1 = simple_if(b[0], 1), simple_if(b[1], 1)
        expect(s0.body[0], 'return a._set_values[name]', 'column(): overlay')
        expect(s1.body[0], 'return a._computed_values[name]', 'column(): cache')
        expect(b[2], 'return a._get_field(name)', 'column(): parse')
        return rule.definition('gen_concat_column_source', ['in_set', 'in_cache'],
                               'if %s then 0 else if %s then 2 else 1' % (rule.cond(s0.test), rule.cond(s1.test)), 'Z')
    emit(defs, 'gen_concat_column_source', concat_column)

    def dictcomp(st, target, iter_src, value_src):
        if not (isinstance(st, ast.Assign) and src_of(st.targets[0]) == target and isinstance(st.value, ast.DictComp)):
            raise Unsupported('%s is not assigned a dict comprehension' % target)
        dc = st.value
        if len(dc.generators) != 1 or src_of(dc.generators[0].target) != 'name' or src_of(dc.key) != 'name':
            raise Unsupported('%s: not {name: ... for name in ...}' % target)
        expect(dc.generators[0].iter, iter_src, 'keys of %s' % target)
        expect(dc.value, value_src, 'values of %s' % target)
        if len(dc.generators[0].ifs) != 1:
            raise Unsupported('%s: expected exactly one filter' % target)
        return dc.generators[0].ifs[0]

    def concat_set_key():
        br, _ = concat_parts()
        test = dictcomp(br.body[1], 'set_values', 'field_names', 'np.concatenate([column(a, name) for a in values])')
        rule = BoolRule({'any((name in a._set_values for a in values))': 'some_operand_replaced'})
        return rule.definition('gen_concat_set_key', ['some_operand_replaced'], rule.cond(test))
    emit(defs, 'gen_concat_set_key', concat_set_key)

    def concat_cache_key():
        br, _ = concat_parts()
        test = dictcomp(br.body[2], 'computed_values', 'self._computed_values',
                        'np.concatenate([a._computed_values[name] for a in values])')
        rule = BoolRule({'name in set_values': 'some_operand_replaced',
                         'all((name in a._computed_values for a in values))': 'every_operand_cached'})
        return rule.definition('gen_concat_cache_key', ['some_operand_replaced', 'every_operand_cached'], rule.cond(test))
    emit(defs, 'gen_concat_cache_key', concat_cache_key)

    # ---- get_buffer: 1 = serialise the data object, 2 = raw bytes pass-through, 3 = refuse, 4 = join text columns
    def get_buffer_path():
        b = body_of(find_function(lz, CLS + 'get_buffer'))
        if len(b) != 7:
            raise Unsupported('get_buffer has %d statements, expected 7' % len(b))
        s0 = simple_if(b[0], 1)
        expect(s0.test, 'buffer_class is None', 'default buffer class test')
        expect(s0.body[0], 'buffer_class = self._itemgetter.buffer.__class__', 'default buffer class')
        rule = BoolRule({"hasattr(self._itemgetter.buffer, 'get_field_range_as_text')": 'has_text',
                         "hasattr(self._itemgetter.buffer, 'SKIP_LAZY')": 'buffer_skips', "hasattr(buffer_class, 'SKIP_LAZY')": 'class_skips',
                         'self._set_values': 'any_replaced', 'issubclass(self._itemgetter.buffer.__class__, buffer_class)': 'same_class',
                         'buffer_class.supports_modified_write': 'supports_modified'})
        s1 = simple_if(b[1], 1)
        expect(s1.body[0], 'return self._itemgetter.buffer.from_data(self.get_data_object())', 'eager serialisation')
        expect(b[2], 'columns = []', 'column list')
        s3 = simple_if(b[3], 1)
        expect(s3.body[0], 'return self._itemgetter.buffer.data.ravel()', 'pass-through')
        s4 = simple_if(b[4], 1)
        if not isinstance(s4.body[0], ast.Raise):
            raise Unsupported('unsupported modified write does not raise')
        if not isinstance(b[5], ast.For):
            raise Unsupported('no column loop')
        expect(b[6], 'return buffer_class.join_fields(columns)', 'join of the columns')
        txt = 'if %s then 1 else if %s then 2 else if %s then 3 else 4' % (rule.cond(s1.test), rule.cond(s3.test), rule.cond(s4.test))
        return rule.definition('gen_get_buffer_path', ['has_text', 'buffer_skips', 'class_skips', 'any_replaced', 'same_class', 'supports_modified'], txt, 'Z')
    emit(defs, 'gen_get_buffer_path', get_buffer_path)

    def write_column():
        b = body_of(find_function(lz, CLS + 'get_buffer'))
        loop = b[5]
        if not isinstance(loop, ast.For):
            raise Unsupported('no column loop')
        expect(loop.target, '(i, field)', 'loop variables')
        expect(loop.iter, 'enumerate(dataclasses.fields(dataclass))', 'loop over the fields in dataclass order')
        if len(loop.body) != 1 or not isinstance(loop.body[0], ast.If) or len(loop.body[0].orelse) != 1:
            raise Unsupported('column loop body is not a single if/else')
        st = loop.body[0]
        rule = BoolRule({'field.name in self._set_values': 'in_set'})
        expect(st.body[0], 'columns.append(get_column(buffer_class.process_field_for_write(field.name, self._set_values[field.name]), field.type))',
               'formatted replaced column')
        expect(st.orelse[0], 'columns.append(self._itemgetter.buffer.get_field_range_as_text(i, i + 1))', 'raw text of field i')
        return (rule.definition('gen_write_column_source', ['in_set'], 'if %s then 0 else 1' % rule.cond(st.test), 'Z')
                + bool_const('gen_write_columns_in_field_order', True))
    emit(defs, 'gen_write_column_source', write_column)

    # ---- NpDataclassReader._should_be_lazy
    def should_be_lazy():
        b = body_of(find_function(rd, 'NpDataclassReader._should_be_lazy'))
        if len(b) != 4:
            raise Unsupported('_should_be_lazy has %d statements, expected 4' % len(b))
        rule = BoolRule({'config.LAZY': 'config_lazy', 'self._lazy is None': 'arg_none', 'self._lazy is False': 'arg_false',
                         "hasattr(chunk, 'get_field_by_number')": 'has_getter', "hasattr(chunk, 'dataclass')": 'has_dataclass',
                         'issubclass(chunk.dataclass, GTFEntry)': 'is_gtf'})
        s0 = simple_if(b[0], 1)
        expect(s0.body[0], 'return False', 'early return')
        expect(b[1], 'should_be_lazy = False', 'default')
        s2 = simple_if(b[2], 1)
        s3 = simple_if(s2.body[0], 1)
        expect(s3.body[0], 'should_be_lazy = True', 'positive case')
        expect(b[3], 'return should_be_lazy', 'final return')
        txt = 'if %s then false else (andb %s %s)' % (rule.cond(s0.test), rule.cond(s2.test), rule.cond(s3.test))
        return rule.definition('gen_should_be_lazy', ['config_lazy', 'arg_none', 'arg_false', 'has_getter', 'has_dataclass', 'is_gtf'], txt)
    emit(defs, 'gen_should_be_lazy', should_be_lazy)

    # ---- BNPDataClass.sort_by (inherited by the lazy class): key through getattr, text keys as bytes, STABLE argsort, self[...]
    def sort_by():
        f = find_function(parse(DATACLASS), 'BNPDataClass.sort_by')
        b = body_of(f)
        if len(b) != 4:
            raise Unsupported('sort_by has %d statements, expected 4' % len(b))
        expect(b[0], 'key = getattr(self, field_name)', 'key of sort_by')
        s1 = simple_if(b[1], 1)
        expect(s1.test, 'isinstance(key, EncodedRaggedArray)', 'ragged text key test')
        expect(s1.body[0], 'key = as_string_array(key)', 'ragged text key -> string array')
        s2 = simple_if(b[2], 1)
        expect(s2.test, 'isinstance(key, StringArray)', 'string array key test')
        expect(s2.body[0], 'key = key.raw()', 'string array key -> bytes')
        expect(b[3], "return self[np.argsort(key, kind='stable')]", 'stable argsort then indexing')
        new_class = find_function(lz, 'create_lazy_class.NewClass')
        for n in ast.walk(new_class):
            if isinstance(n, ast.FunctionDef) and n.name == 'sort_by':
                raise Unsupported('the lazy class overrides sort_by')
        return (bool_const('gen_sort_by_key_through_getattr', True) + bool_const('gen_sort_by_text_key_bytewise', True)
                + bool_const('gen_sort_by_stable', True) + bool_const('gen_sort_by_indexes_self', True))
    emit(defs, 'gen_sort_by_key_through_getattr', sort_by)

    return LAZY + ' + ' + READER + ' + ' + DATACLASS, defs
